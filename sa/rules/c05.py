"""C05 - a choice always has exactly one selected member (necessary structural conditions)."""
from __future__ import annotations

import ast
from typing import Dict, List, Optional, Set, Tuple

from ..flow import AnalysisError, Flow, Resolver, has_truthy
from ..pathenum import NORM, RET
from ..repo import AnchorError
from . import c01, c03

PROPERTY = "C05"
CORE = "esp_kconfiglib.core"
LEVEL_TEXT = (
    "Static analysis of esp_kconfiglib/core.py: a choice member's value has a single source of y (identity with "
    "Choice.selection, under vis == 2), defaults/imply/select never reach members; the selection falls through "
    "user pick (if visible) -> first default with true condition and visible member -> first visible member -> "
    "None, with no early loop exit; members are exactly the Symbol children and are bounded by the Choice; "
    "the user pick is recorded only for y and cleared by unset/reset; the choice is invalidated by every member "
    "(edge registration). Not decided: last-y-wins ordering of loaded files."
)


def r05_1(ctx):
    """R05.1 single source of y for choice members in Symbol.bool_value: on every path under `self.choice` the only
    non-zero assignment is `2 if self.choice.selection is self else 0` under vis == 2 (or the dead m-mode arm under
    vis != 2); defaults, imply and select are unreachable for members."""
    repo = ctx.repo
    f = repo.func(f"{CORE}:Symbol.bool_value")
    ctx.analysed(f.qual)
    result = c01.result_var(f.node, "_cached_bool_val")
    paths = c01.bool_value_paths(f.node, result, 1)
    vv = c01.vis_var(f.node)
    n_choice = 0
    bad: Dict[str, Tuple[str, int]] = {}
    for p, status in paths:
        if status not in (NORM, RET):
            continue
        choice = any((c == "not self.choice" and not pol) or (c == "self.choice" and pol) for c, pol, _, _ in p.conds)
        if not choice:
            continue
        n_choice += 1
        for e in p.events:
            if e[0].startswith("SRC:"):
                k, ln, v = e[0][4:], e[1], e[2]
                if k in ("DEF", "IMPLY", "SELECT"):
                    bad.setdefault(f"{k} applied to a choice member", (f"{k} assigns the value of a choice member", ln))
                elif k == "CHOICE":
                    txt = ast.unparse(v).replace(" ", "")
                    if txt != "2ifself.choice.selectionisselfelse0":
                        bad.setdefault("member value is not identity with the selection", (f"value is {ast.unparse(v)}", ln))
                    if not any(c == f"{vv} == 2" and pol for c, pol, _, _ in p.conds):
                        bad.setdefault("selection identity not under vis == 2", ("", ln))
                elif k == "USER":
                    bad.setdefault("user value decides a member directly", ("a member takes its own user value", ln))
            if e[0] == "CONST" and e[2] not in (0,):
                if any(c == f"{vv} == 2" and pol for c, pol, _, _ in p.conds):
                    bad.setdefault("constant y for a member in y-mode", (f"val = {e[2]} under vis == 2", e[1]))
        # in y-mode the value that is stored is the identity with the selection: whatever is assigned last on the path
        if any(c == f"{vv} == 2" and pol for c, pol, _, _ in p.conds):
            assigns = [e for e in p.events if e[0].startswith("SRC:") or e[0] == "CONST"]
            if assigns and assigns[-1][0] != "SRC:CHOICE":
                last = assigns[-1]
                bad.setdefault("member value in y-mode decided without asking the selection",
                               (f"on a path under `{vv} == 2` the last assignment is `{last[0]}` ({last[2] if last[0] == 'CONST' else ast.unparse(last[2])[:40]}): "
                                "the member can be n although Choice.selection names it - no member is y", last[1]))
    if n_choice < 2:
        raise AnalysisError(f"only {n_choice} choice-member paths in Symbol.bool_value")
    base = f.loc().rsplit(":", 1)[0]
    for k, (msg, ln) in sorted(bad.items()):
        ctx.bad(f"Symbol.bool_value/{k}", msg, f"{base}:{ln}")
    if not bad:
        ctx.ok("Symbol.bool_value/member y only by identity with Choice.selection under vis == 2", f.loc(), paths=n_choice)
        ctx.ok("Symbol.bool_value/no default, imply or select for members", f.loc(), paths=n_choice)


def _loop_flow(fn: ast.FunctionDef, loop: ast.For):
    extra: Dict[str, ast.AST] = {}
    star = ast.Subscript(value=loop.iter, slice=ast.Name(id="*", ctx=ast.Load()), ctx=ast.Load())
    if isinstance(loop.target, ast.Name):
        extra[loop.target.id] = star
    elif isinstance(loop.target, ast.Tuple):
        for i, t in enumerate(loop.target.elts):
            if isinstance(t, ast.Name):
                extra[t.id] = ast.Subscript(value=star, slice=ast.Constant(i), ctx=ast.Load())
    res = Resolver(fn, extra)
    return res, Flow(fn, resolver=res, body=[loop]).run()


def r05_2(ctx):
    """R05.2 selection priority: None unless mode y; the user's pick if it is visible; the first default whose condition
    holds and whose member is visible; the first visible member; None - and no loop stops early."""
    repo = ctx.repo
    f = repo.func(f"{CORE}:Choice._selection")
    g = repo.func(f"{CORE}:Choice._selection_from_defaults")
    ctx.analysed(f.qual, g.qual)
    res = Resolver(f.node)
    fl = Flow(f.node, resolver=res).run()
    rets = [n for n in ast.walk(f.node) if isinstance(n, ast.Return)]
    kinds: List[Tuple[str, ast.Return]] = []
    for r in sorted(rets, key=lambda n: n.lineno):
        t = res.text(r.value) if r.value is not None else "None"
        kinds.append(("none" if t == "None" else "user" if t == "self._user_selection" else
                      "defaults" if t == "self._selection_from_defaults()" else "other:" + t, r))
    construct = "Choice._selection/order none(mode) -> user pick -> defaults"
    if [k for k, _ in kinds] != ["none", "user", "defaults"]:
        ctx.bad(construct, f"return sites are {[k for k, _ in kinds]}", f.loc())
    else:
        msgs = []
        g0 = fl.guards_at(kinds[0][1]) or set()
        if ("self.bool_value == 2", False) not in g0:
            msgs.append(f"`return None` is not guarded by mode != y: {sorted(g0)}")
        g1 = fl.guards_at(kinds[1][1]) or set()
        if not (has_truthy(g1, "self._user_selection") and has_truthy(g1, "self._user_selection.visibility")
                and ("self.bool_value == 2", True) in g1):
            msgs.append(f"user pick not guarded by (mode y, pick set, pick visible): {sorted(g1)}")
        extra = [x for x in g1 if x not in {("self.bool_value == 2", True), ("self._user_selection", True),
                                             ("self._user_selection.visibility", True)}]
        if extra:
            msgs.append(f"user pick additionally guarded by {extra}")
        g2 = fl.guards_at(kinds[2][1]) or set()
        if ("self.bool_value == 2", True) not in g2:
            msgs.append("defaults consulted outside mode y")
        (ctx.bad(construct, "; ".join(msgs), f.loc()) if msgs else ctx.ok(construct, f.loc(), guards_user=sorted(map(str, g1))))
    # _selection_from_defaults
    top = [s for s in g.node.body if not (isinstance(s, ast.Expr) and isinstance(s.value, ast.Constant))]
    loops = [s for s in top if isinstance(s, ast.For)]
    construct = "Choice._selection_from_defaults/defaults loop then members loop then None"
    shape_ok = (len(loops) == 2 and ast.unparse(loops[0].iter) == "self.defaults" and ast.unparse(loops[1].iter) == "self.syms"
                and isinstance(top[-1], ast.Return) and ast.unparse(top[-1].value) == "None"
                and top.index(loops[0]) < top.index(loops[1]) < len(top) - 1
                and all(isinstance(s, (ast.For, ast.Return)) for s in top))
    if not shape_ok:
        ctx.bad(construct, f"top-level shape is {[type(s).__name__ + ':' + (ast.unparse(s.iter) if isinstance(s, ast.For) else '') for s in top]}", g.loc())
        return
    ctx.ok(construct, g.loc())
    for loop, label, need in ((loops[0], "default", "cond"), (loops[1], "member", None)):
        res, fl = _loop_flow(g.node, loop)
        construct = f"Choice._selection_from_defaults/{label} loop"
        msgs = []
        if any(isinstance(x, (ast.Break,)) for x in ast.walk(loop)) or loop.orelse:
            msgs.append("the loop can stop at the first non-matching entry (break/else)")
        rs = [n for n in ast.walk(loop) if isinstance(n, ast.Return)]
        if len(rs) != 1:
            msgs.append(f"{len(rs)} return sites")
        else:
            r = rs[0]
            gs = fl.guards_at(r) or set()
            it = ast.unparse(loop.iter)
            if label == "default":
                member = f"{it}[*][0]"
                # ... and the default must name one of the choice's own symbols (a default outside the choice can never be y
                # *as a member*; asking for its visibility may lead back into the choice - fixed defect 5.45)
                mem = (f"{member}.choice is self", True) if (f"{member}.choice is self", True) in gs or (f"{member} in self.syms", True) not in gs \
                    else (f"{member} in self.syms", True)
                want = {(f"expr_value({it}[*][1])", True), (f"{member}.visibility", True), mem}
            else:
                member = f"{it}[*]"
                want = {(f"{member}.visibility", True)}
            if res.text(r.value) != member:
                msgs.append(f"returns {res.text(r.value)} instead of the {label}'s member")
            if not want <= gs:
                msgs.append(f"missing guards {sorted(want - gs)}")
            if gs - want:
                msgs.append(f"additional guards {sorted(gs - want)}")
        conts = [x for x in ast.walk(loop) if isinstance(x, ast.Continue)]
        (ctx.bad(construct, "; ".join(msgs), g.loc(loop)) if msgs else ctx.ok(construct, g.loc(loop)))


def r05_3(ctx):
    """R05.3 members are exactly the Symbol children of the choice node, every member points back to the choice, and the
    Choice itself is the parent dependency of its members (so an invisible choice hides them)."""
    repo = ctx.repo
    f = repo.func(f"{CORE}:_finalize_choice")
    ctx.analysed(f.qual)
    res = Resolver(f.node)
    fl = Flow(f.node, resolver=res).run()
    setc = [n for n in ast.walk(f.node) if isinstance(n, ast.Assign) and ast.unparse(n.targets[0]).endswith(".item.choice")]
    app = [n for n in ast.walk(f.node) if isinstance(n, ast.Call) and ast.unparse(n.func).endswith(".syms.append")]
    construct = "_finalize_choice/registers exactly the Symbol children as members"
    msgs = []
    if not setc or not app:
        msgs.append("member registration statements not found")
    else:
        for n in (setc[0], app[0]):
            gs = fl.guards_at(n) or set()
            want = {k for k in gs if "is Symbol" in k[0] and k[1]}
            extra = [x for x in gs if x not in want and not (x[0] in ("cur", "node.list") and x[1])]
            if not want:
                msgs.append(f"line {n.lineno}: not restricted to Symbol children")
            if extra:
                msgs.append(f"line {n.lineno}: additionally guarded by {extra}")
        w = [n for n in ast.walk(f.node) if isinstance(n, ast.While)]
        if not w or not any(isinstance(s, ast.Assign) and ast.unparse(s.value).endswith(".next") for s in w[0].body):
            msgs.append("the child list is not walked with .next")
        if any(isinstance(x, (ast.Break, ast.Continue)) for x in ast.walk(w[0])) if w else False:
            msgs.append("the child walk can stop early")
    (ctx.bad(construct, "; ".join(msgs), f.loc()) if msgs else ctx.ok(construct, f.loc(setc[0])))
    # finalize_node calls _finalize_choice for every Choice node
    fin = repo.func(f"{CORE}:Kconfig._finalize_node")
    calls = [n for n in ast.walk(fin.node) if isinstance(n, ast.Call) and ast.unparse(n.func) == "_finalize_choice"]
    construct = "Kconfig._finalize_node/finalizes every Choice node"
    if not calls:
        ctx.bad(construct, "no call of _finalize_choice", fin.loc())
    else:
        gs = Flow(fin.node).run().guards_at(calls[0]) or set()
        ok = gs == {("type(node.item) is Choice", True)}
        (ctx.ok(construct, fin.loc(calls[0])) if ok else ctx.bad(construct, f"guards {sorted(gs)}", fin.loc(calls[0])))
    # the Choice bounds its members (shared structural fact with C01 R01.4)
    prop = repo.func(f"{CORE}:Kconfig._propagate_deps")
    bd = [n for n in ast.walk(prop.node) if isinstance(n, ast.Assign) and any(ast.unparse(t) == "basedep" for t in n.targets)]
    construct = "Kconfig._propagate_deps/Choice is the base dependency of its members"
    ok = bool(bd) and isinstance(bd[0].value, ast.IfExp) and "Choice" in ast.unparse(bd[0].value.test) \
        and ast.unparse(bd[0].value.body).endswith(".item")
    (ctx.ok(construct, prop.loc(bd[0])) if ok else ctx.bad(construct, "the choice no longer bounds the visibility of its members", prop.loc()))


def r05_4(ctx):
    """R05.4 user-pick bookkeeping: Symbol.set_value records the pick only for a member set to y and invalidates the
    choice; Choice.unset_value and _restore_default clear the pick (and the members' user values)."""
    repo = ctx.repo
    f = repo.func(f"{CORE}:Symbol.set_value")
    ctx.analysed(f.qual)
    res = Resolver(f.node)
    fl = Flow(f.node, resolver=res).run()
    w = [n for n in ast.walk(f.node) if isinstance(n, ast.Assign) and ast.unparse(n.targets[0]) == "self.choice._user_selection"]
    construct = "Symbol.set_value/pick recorded only for y on a member"
    if not w:
        ctx.bad(construct, "set_value no longer records the user selection", f.loc())
    else:
        gs = fl.guards_at(w[0]) or set()
        ok = ("self.choice", True) in gs and ("value == 2", True) in gs and ast.unparse(w[0].value) == "self"
        (ctx.ok(construct, f.loc(w[0]), guards=sorted(map(str, gs))) if ok else
         ctx.bad(construct, f"guards {sorted(gs)}, value {ast.unparse(w[0].value)}", f.loc(w[0])))
    u = repo.func(f"{CORE}:Choice.unset_value")
    ctx.analysed(u.qual)
    cl = [n for n in ast.walk(u.node) if isinstance(n, ast.Assign) and any(ast.unparse(t) == "self._user_selection" for t in n.targets)
          and ast.unparse(n.value) == "None"]
    construct = "Choice.unset_value/clears the pick"
    if not cl:
        ctx.bad(construct, "unset_value does not reset _user_selection", u.loc())
    else:
        gs = Flow(u.node).run().guards_at(cl[0]) or set()
        ok = all(("_user_selection" in k or "_user_value" in k) for k, _ in gs)
        (ctx.ok(construct, u.loc(cl[0])) if ok else ctx.bad(construct, f"guards {sorted(gs)}", u.loc(cl[0])))
    r = repo.func(f"{CORE}:_restore_default")
    ctx.analysed(r.qual)
    construct = "_restore_default/resetting a choice or a member clears the pick and every member's user value"
    # the effect of the function as a whole, however it is split into helpers: analysed on a copy with its helpers inlined
    from ..inline import inlined_function
    fi = inlined_function(r.module.tree, "_restore_default")
    rr = Resolver(fi)
    fr = Flow(fi, resolver=rr).run()
    item = None
    for n in ast.walk(fi):
        if isinstance(n, ast.Call) and ast.unparse(n.func) in ("isinstance", "type") and n.args:
            item = ast.unparse(rr.resolve(n.args[0]))
            break
    if item is None:
        raise AnchorError("_restore_default: no type dispatch on the node's item")

    def benign(gs):
        return [x for x in gs if not (("isinstance" in x[0] or "type(" in x[0])) and not (x[0].endswith(".choice is None") and not x[1])
                and not (x[0].endswith(".choice") and x[1])]

    sel, mem = {}, {}
    for n in ast.walk(fi):
        if isinstance(n, ast.Assign) and ast.unparse(n.value) == "None":
            for t in n.targets:
                if isinstance(t, ast.Attribute) and t.attr == "_user_selection":
                    sel.setdefault(ast.unparse(rr.resolve(t.value)), []).append(benign(fr.guards_at(n) or set()))
        if isinstance(n, ast.For) and isinstance(n.iter, ast.Attribute) and n.iter.attr == "syms" and isinstance(n.target, ast.Name):
            if any(isinstance(x, ast.Assign) and ast.unparse(x.value) == "None" and any(ast.unparse(t) == f"{n.target.id}._user_value" for t in x.targets)
                   for x in ast.walk(n)):
                mem.setdefault(ast.unparse(rr.resolve(n.iter.value)), []).append(benign(fr.guards_at(n) or set()))
    msgs = []
    for recv, what in ((item, "the choice itself"), (f"{item}.choice", "the choice of a member")):
        if recv not in sel:
            msgs.append(f"resetting {what} does not clear its _user_selection")
        elif all(g for g in sel[recv]):
            msgs.append(f"the pick of {what} is cleared only under {sel[recv][0]}")
        if recv not in mem:
            msgs.append(f"resetting {what} does not reset every member's user value")
        elif all(g for g in mem[recv]):
            msgs.append(f"the members of {what} are reset only under {mem[recv][0]}")
    (ctx.bad(construct, "; ".join(msgs), r.loc()) if msgs else ctx.ok(construct, r.loc()))


def r05_5(ctx):
    """R05.5 the choice's cached selection is invalidated by every member and by its conditions: registration of
    syms[*], nodes[*].prompt[1] and defaults[*][1] edges is present and unconditional (Choice part of C03 R03.1)."""
    before = len(ctx.instances)
    c03.r03_1(ctx)
    keep = [i for i in ctx.instances[before:] if i.construct.startswith("Choice/")]
    dropped = {i.construct for i in ctx.instances[before:] if not i.construct.startswith("Choice/")}
    ctx.instances[before:] = keep
    ctx.findings[:] = [f for f in ctx.findings if not (f.rule == ctx._rule and f.construct in dropped)]


def r05_6(ctx):
    """R05.6 (a) set_value's `same value, nothing to do` shortcut never applies to choice members (picking the current
    default selection must still record the pick); (b) Choice.unset_value clears the pick whenever a pick or a mode is
    set; (c) members are registered after the `if` blocks inside the choice were flattened away; (d) reading the
    selection never changes the recorded pick."""
    repo = ctx.repo
    f = repo.func(f"{CORE}:Symbol.set_value")
    ctx.analysed(f.qual)
    fl = Flow(f.node).run()
    first_valid = min((n.lineno for n in ast.walk(f.node) if isinstance(n, ast.Call) and ast.unparse(n.func) == "self.value_is_valid"), default=10**9)
    early = [n for n in ast.walk(f.node) if isinstance(n, ast.Return) and n.lineno < first_valid]
    construct = "Symbol.set_value/no-change shortcut is not taken for choice members"
    bad = [r for r in early if ("self.choice", False) not in (fl.guards_at(r) or set())]
    (ctx.bad(construct, f"the early return at line {bad[0].lineno} can be taken for a choice member ({sorted(fl.guards_at(bad[0]) or [])}): re-picking the member that "
             "is currently selected by default is not recorded, so an older hidden pick wins when it becomes visible again", f.loc(bad[0]))
     if bad else ctx.ok(construct, f.loc(early[0]) if early else f.loc(), shortcuts=len(early)))
    u = repo.func(f"{CORE}:Choice.unset_value")
    ctx.analysed(u.qual)
    cl = [n for n in ast.walk(u.node) if isinstance(n, ast.Assign) and any(ast.unparse(t) == "self._user_selection" for t in n.targets)]
    construct = "Choice.unset_value/the pick is cleared whenever there is a pick"
    ok = False
    if cl:
        p = repo.parent(cl[0])
        if isinstance(p, ast.If):
            t = p.test
            disj = [ast.unparse(v) for v in t.values] if isinstance(t, ast.BoolOp) and isinstance(t.op, ast.Or) else [ast.unparse(t)]
            ok = any(d in ("self._user_selection", "self._user_selection is not None") for d in disj)
        elif p is u.node:
            ok = True
    (ctx.ok(construct, u.loc(cl[0]) if cl else u.loc()) if ok else
     ctx.bad(construct, "the pick is only cleared when a user *mode* is set; a choice picked through a member keeps its selection across unset / a replacing load",
             u.loc(cl[0]) if cl else u.loc()))
    fin = repo.func(f"{CORE}:Kconfig._finalize_node")
    ctx.analysed(fin.qual)
    top = fin.node.body
    rm = [i for i, s in enumerate(top) if any(isinstance(x, ast.Call) and ast.unparse(x.func) == "_remove_ifs" for x in ast.walk(s))]
    fc = [i for i, s in enumerate(top) if any(isinstance(x, ast.Call) and ast.unparse(x.func) == "_finalize_choice" for x in ast.walk(s))]
    construct = "Kconfig._finalize_node/choice members registered after nested ifs were removed"
    ok = bool(rm) and bool(fc) and max(rm) < min(fc)
    (ctx.ok(construct, fin.loc(top[fc[0]]) if fc else fin.loc()) if ok else
     ctx.bad(construct, "_finalize_choice runs before _flatten/_remove_ifs: members written inside `if ... endif` within a choice are still hidden under the if node, "
             "never become choice symbols and can all be y", fin.loc(top[fc[0]]) if fc else fin.loc()))
    for name in ("_selection", "_selection_from_defaults", "bool_value", "visibility", "selection", "_assignable"):
        m = repo.func(f"{CORE}:Choice.{name}")
        ctx.analysed(m.qual)
        w = [n for n in ast.walk(m.node) if isinstance(n, (ast.Assign, ast.AugAssign)) and any(
            isinstance(t, ast.Attribute) and t.attr in ("_user_selection", "_user_value") for t in (n.targets if isinstance(n, ast.Assign) else [n.target]))]
        construct = f"Choice.{name}/evaluation does not modify the recorded pick"
        (ctx.bad(construct, f"`{ast.unparse(w[0])}` inside an evaluator: merely reading the choice while the pick is hidden forgets the pick", m.loc(w[0]))
         if w else ctx.ok(construct, m.loc(), nontrivial=False))


def r05_7(ctx):
    """R05.7 (a) a replacing load forgets earlier picks: per-load marks (`_was_set`, `present_in_current_sdkconfig`) are
    reset for symbols *and* choices before the lines are read, and whatever the file did not set is unset afterwards for
    both; (b) in _finalize_choice the choice's type is settled before any member inherits it (a member that precedes the
    first typed member would otherwise stay untyped, can be selected and never be y); (c) the recursive reset visits every
    node below its start - a choice nested in another choice is below a Choice node."""
    repo = ctx.repo
    f = repo.func(f"{CORE}:Kconfig._load_config")
    ctx.analysed(f.qual)
    fl = Flow(f.node, resolver=Resolver(f.node)).run()
    resets: Set[Tuple[str, str]] = set()
    unsets: Set[str] = set()
    extra_unset: Dict[str, tuple] = {}
    for lp in ast.walk(f.node):
        if not (isinstance(lp, ast.For) and isinstance(lp.target, ast.Name) and ast.unparse(lp.iter) in ("self.unique_defined_syms", "self.unique_choices")):
            continue
        coll = ast.unparse(lp.iter)
        for n in ast.walk(lp):
            if isinstance(n, ast.Assign) and isinstance(n.targets[0], ast.Attribute) and ast.unparse(n.targets[0].value) == lp.target.id \
                    and isinstance(n.value, ast.Constant) and n.value.value is False:
                gs = fl.guards_at(n) or set()
                if n.targets[0].attr != "_was_set" or ("replace", True) in gs:
                    resets.add((coll, n.targets[0].attr))
            if isinstance(n, ast.Call) and ast.unparse(n.func) == f"{lp.target.id}.unset_value":
                gs = fl.guards_at(n) or set()
                if (f"{coll}[*]._was_set", False) in gs or (f"{lp.target.id}._was_set", False) in gs:
                    # ... and on nothing else: a second condition (a member was mentioned, the entry is present, ...) keeps
                    # user state the file did not set
                    extra = sorted(k for k, p in gs if k not in ("replace", f"{coll}[*]._was_set", f"{lp.target.id}._was_set"))
                    if extra:
                        extra_unset[coll] = (extra, n)
                    else:
                        unsets.add(coll)
    for coll in ("self.unique_defined_syms", "self.unique_choices"):
        for slot in ("_was_set", "present_in_current_sdkconfig"):
            construct = f"Kconfig._load_config/{slot} is reset over {coll.split('.')[-1]} before the lines are read"
            (ctx.ok(construct, f.loc()) if (coll, slot) in resets else
             ctx.bad(construct, f"no loop over {coll} resets `{slot}`" + (" under `replace`" if slot == "_was_set" else "") +
                     ": a mark left by an earlier load / edit makes the replacing load skip `unset_value()` and the old pick survives", f.loc()))
        construct = f"Kconfig._load_config/whatever a replacing load did not set is unset ({coll.split('.')[-1]})"
        if coll in unsets:
            ctx.ok(construct, f.loc())
        elif coll in extra_unset:
            ctx.bad(construct, f"`unset_value()` over {coll} additionally depends on {extra_unset[coll][0]}: user state the file did not set survives the "
                    "replacing load (a fresh instance loading the same file has none)", f.loc(extra_unset[coll][1]))
        else:
            ctx.bad(construct, f"no `unset_value()` under `not _was_set` over {coll}", f.loc())
    fc = repo.func(f"{CORE}:_finalize_choice")
    ctx.analysed(fc.qual)
    construct = "_finalize_choice/the choice type is settled before members inherit it"
    inherit = [lp for lp in ast.walk(fc.node) if isinstance(lp, (ast.For, ast.While)) and any(
        isinstance(n, ast.Assign) and ast.unparse(n.targets[0]).endswith(".orig_type") and ast.unparse(n.value) == "choice.orig_type" for n in ast.walk(lp))]
    if not inherit:
        ctx.bad(construct, "members no longer inherit the type of the choice", fc.loc())
    else:
        mixed = [lp for lp in inherit if any(isinstance(n, ast.Assign) and ast.unparse(n.targets[0]) == "choice.orig_type" for n in ast.walk(lp))]
        (ctx.bad(construct, "the loop that hands the choice's type to untyped members also *determines* that type: members before the first typed "
                 "one are visited while the type is still unknown and stay untyped", fc.loc(mixed[0])) if mixed else ctx.ok(construct, fc.loc(inherit[0])))
    # every step of the walk along `.list` / `.next` (recursive call or cursor assignment, in whichever nested walker) depends
    # only on the link being there and on the start-node test - not on what kind of node it is
    rpo = repo.func(f"{CORE}:_recursively_perform_action")
    ctx.analysed(rpo.qual)
    walkers = [n for n in ast.walk(rpo.node) if isinstance(n, ast.FunctionDef)]
    found = {"list": False, "next": False}
    for w in walkers:
        fl2 = Flow(w, resolver=Resolver(w)).run()
        names = {n.name for n in walkers}
        for n in ast.walk(w):
            link = None
            if isinstance(n, ast.Call) and isinstance(n.func, ast.Name) and n.func.id in names and n.args and isinstance(n.args[0], ast.Attribute) \
                    and n.args[0].attr in ("list", "next") and repo.enclosing_func(n) is not None and repo.enclosing_func(n).node is w:
                link, cur = n.args[0].attr, ast.unparse(n.args[0].value)
            elif isinstance(n, ast.Assign) and len(n.targets) == 1 and isinstance(n.targets[0], ast.Name) and isinstance(n.value, ast.Attribute) \
                    and n.value.attr in ("list", "next") and ast.unparse(n.value.value) == n.targets[0].id:
                link, cur = n.value.attr, n.targets[0].id
            if link is None or (cur == "start_node" and w is rpo.node):
                continue
            found[link] = True
            construct = f"_recursively_perform_action/descends into node.{link} whatever the node is"
            extra = sorted(k for k, p in (fl2.guards_at(n) or set())
                           if not (k in (cur, f"{cur}.{link}", f"{cur}.list", f"{cur}.next", "True", "1") or "start_node" in k))
            (ctx.bad(construct, f"the step is additionally guarded by {extra}: nodes below such a node (e.g. a choice nested in a choice) are never reset",
                     rpo.loc(n)) if extra else ctx.ok(construct, rpo.loc(n)))
    for link, ok_ in found.items():
        if not ok_:
            ctx.bad(f"_recursively_perform_action/descends into node.{link} whatever the node is", f"no step into node.{link}", rpo.loc())


def r05_8(ctx):
    """R05.8 the pick a loaded file recorded survives the default resolution of the same load: Choice.resolve_defaults()
    user-sets every member to its *current* value when the choice has a user pick; setting the currently selected
    (fallback) member to y records it as the pick, so the branch saves `_user_selection` before that loop and restores it
    afterwards - otherwise a picked member that is merely invisible during the load loses against the fallback for good."""
    repo = ctx.repo
    f = repo.func(f"{CORE}:Choice.resolve_defaults")
    ctx.analysed(f.qual)
    arms = [n for n in ast.walk(f.node) if isinstance(n, ast.If) and ast.unparse(n.test) in ("self._user_selection is not None", "self._user_selection")]
    construct = "Choice.resolve_defaults/the recorded pick is restored after the members were user-set"
    if not arms:
        ctx.ok(construct + " (no user-pick branch)", f.loc(), nontrivial=False)
        return
    arm = arms[0]
    loops = [n for n in arm.body if isinstance(n, ast.For) and any(isinstance(c, ast.Call) and ast.unparse(c.func).endswith(("set_value_and_source", ".set_value")) for c in ast.walk(n))]
    if not loops:
        ctx.ok(construct + " (members are not user-set any more)", f.loc(arm), nontrivial=False)
        return
    i = arm.body.index(loops[0])
    saved = {n.targets[0].id for n in arm.body[:i] if isinstance(n, ast.Assign) and isinstance(n.targets[0], ast.Name) and ast.unparse(n.value) == "self._user_selection"}
    restored = [n for st in arm.body[i + 1:] for n in ast.walk(st) if isinstance(n, ast.Assign) and ast.unparse(n.targets[0]) == "self._user_selection"
                and isinstance(n.value, ast.Name) and n.value.id in saved]
    (ctx.ok(construct, f.loc(restored[0])) if restored else
     ctx.bad(construct, "the loop sets the currently selected member to y through set_value(), which makes *it* the user's pick: a picked member that "
             "is invisible while the file is loaded is no longer selected when it becomes visible", f.loc(loops[0])))


def r05_9(ctx):
    """R05.9 (a) member assignments a file makes are applied even when the choice is invisible at load time (they are deferred
    to the end of the load and then applied unconditionally: the pick has to win once the choice becomes visible);
    (b) every default of every definition of a choice reaches Choice.defaults (they are copied up wholesale; whether a
    default names a member is judged later, when all definitions have registered their members)."""
    repo = ctx.repo
    f = repo.func(f"{CORE}:Kconfig._load_config")
    ctx.analysed(f.qual)
    loops = [n for n in ast.walk(f.node) if isinstance(n, ast.For) and "choices_with_user_set_value" in ast.unparse(n.iter)]
    if not loops:
        raise AnchorError("_load_config: loop over the deferred choice assignments not found")
    lp = loops[0]
    inner = [n for n in ast.walk(lp) if isinstance(n, ast.For) and n is not lp and any(isinstance(c, ast.Call) and ast.unparse(c.func).endswith(("set_value_and_source", ".set_value")) for c in ast.walk(n))]
    construct = "Kconfig._load_config/deferred member assignments are applied for every choice"
    if not inner:
        ctx.bad(construct, "the deferred (member, value) pairs are never applied", f.loc(lp))
    else:
        ids = {id(inner[0].iter)}
        fl = Flow(f.node, resolver=Resolver(f.node), events=lambda n: ["applied"] if id(n) in ids else [], body=lp.body).run()
        skipping = []
        for kind, node, stt in fl.exits:
            if kind in ("continue", "fallthrough") and "applied" not in {x[1] for x in stt if x[0] == "ev"}:
                skipping.append(sorted((x[1], x[2]) for x in stt if x[0] == "g")[:3])
        (ctx.bad(construct, f"a choice is skipped under {skipping[0]}: a pick loaded while the choice is disabled is forgotten and the default wins once the "
                 "choice becomes visible", f.loc(lp)) if skipping else ctx.ok(construct, f.loc(inner[0])))
    fn = repo.func(f"{CORE}:Kconfig._finalize_node")
    ctx.analysed(fn.qual)
    construct = "Kconfig._finalize_node/all defaults of a choice definition are copied to the Choice"
    whole = [n for n in ast.walk(fn.node) if (isinstance(n, ast.AugAssign) and ast.unparse(n.target).endswith(".defaults") and ast.unparse(n.value) == "node.defaults")
             or (isinstance(n, ast.Call) and ast.unparse(n.func).endswith(".defaults.extend") and n.args and ast.unparse(n.args[0]) == "node.defaults")]
    (ctx.ok(construct, fn.loc(whole[0])) if whole else
     ctx.bad(construct, "the defaults are copied one by one under a filter: a default naming a member that a *later* definition of the same choice adds is dropped",
             fn.loc()))

def r05_10(ctx):
    """R05.10 a choice's `default` counts only under the condition of the definition it was written in: _propagate_deps ANDs the
    definition's dependencies into the defaults of choices exactly as for symbols (C01 R01.4)."""
    from . import c01
    from .common import delegate
    delegate(ctx, c01.r01_4, lambda c: "defaults" in c)


def r05_11(ctx):
    """R05.11 the cached selection is dropped whenever a member changes: Symbol/Choice._rec_invalidate() clear their own caches and walk
    all dependents unconditionally (C03 R03.5) - a member whose value was never read still has the choice depending on its visibility."""
    from . import c03
    from .common import delegate
    # ... and the choice is among the dependents of every symbol its conditions mention, on either side of a relation
    # (`default B if LEVEL = WANTED`): _depend_on() descends into both operands of every binary operator
    delegate(ctx, c03.r03_5, lambda c: '_rec_invalidate' in c or c.startswith('_depend_on/'))


def r05_12(ctx):
    """R05.12 the selected member after a replacing load is the one the file gives: a pick made before the load is dropped before
    the default-marked choices are resolved (C08 R08.17)."""
    from . import c08
    from .common import delegate
    delegate(ctx, c08.r08_17, lambda c: True)


def rules():
    return [("R05.12", r05_12, 1), ("R05.11", r05_11, 4), ("R05.10", r05_10, 1), ("R05.9", r05_9, 2), ("R05.8", r05_8, 1), ("R05.7", r05_7, 9), ("R05.1", r05_1, 2), ("R05.2", r05_2, 4), ("R05.3", r05_3, 3), ("R05.4", r05_4, 3), ("R05.5", r05_5, 6), ("R05.6", r05_6, 9)]
