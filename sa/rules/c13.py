"""C13 - outputs are rewritten only when they change, and a save never loses both copies (necessary
structural conditions: order of effectful calls)."""
from __future__ import annotations

import ast
from typing import Dict, List, Optional, Set, Tuple

from ..callgraph import CallGraph
from ..flow import AnalysisError, Flow, Resolver
from ..pathenum import NORM, RET, Enumerator, Path
from ..repo import AnchorError, Func

PROPERTY = "C13"
CORE = "esp_kconfiglib.core"
LEVEL_TEXT = (
    "Static analysis of the order of effectful calls: every truncating open of a destination parameter is reached only "
    "on paths on which the destination was absent or a whole-content comparison failed (path enumeration); the "
    "comparison reads more than len(contents) characters; writers that truncate without comparing are only called on "
    "NamedTemporaryFile names and are followed by update_if_changed; write_config backs up before truncating and "
    "_save_old moves regular files atomically and copies (independently) through symlinks. Not decided: short writes, "
    "the state at every individual system call."
)


def truncating_opens(fn: ast.AST) -> List[Tuple[ast.Call, str, str]]:
    """[(call, path expression text, mode)] for open(p, 'w'...) / os.open(.. O_TRUNC)."""
    out = []
    for n in ast.walk(fn):
        if isinstance(n, ast.Call) and ast.unparse(n.func) == "open" and n.args:
            mode = None
            if len(n.args) > 1 and isinstance(n.args[1], ast.Constant):
                mode = n.args[1].value
            for kw in n.keywords:
                if kw.arg == "mode" and isinstance(kw.value, ast.Constant):
                    mode = kw.value.value
            if isinstance(mode, str) and mode[:1] in ("w", "a", "x"):
                out.append((n, ast.unparse(n.args[0]), mode))
        elif isinstance(n, ast.Call) and ast.unparse(n.func) == "os.open" and "O_TRUNC" in ast.unparse(n):
            out.append((n, ast.unparse(n.args[0]), "w"))
    return out


def _is_content_cmp(node) -> bool:
    """`<name> == <name>` over whole contents, or a call of _contents_eq - nothing weaker (sizes, prefixes, conjunctions)."""
    if isinstance(node, ast.Call) and ast.unparse(node.func).endswith("_contents_eq"):
        return True
    return (isinstance(node, ast.Compare) and len(node.ops) == 1 and isinstance(node.ops[0], ast.Eq)
            and isinstance(node.left, ast.Name) and isinstance(node.comparators[0], ast.Name))


def _failed_content_cmp(fn, node, pol) -> bool:
    """the condition `node` evaluating to `pol` means that a whole-contents comparison failed - through `not` and through a
    local that holds the comparison's result (`unchanged = self._contents_eq(...); if not unchanged:`)"""
    from .common import expand_locals
    while isinstance(node, ast.UnaryOp) and isinstance(node.op, ast.Not):
        node, pol = node.operand, (not pol if pol is not None else None)
    if isinstance(node, ast.Name):
        try:
            node = ast.parse(expand_locals(fn, node), mode="eval").body
        except SyntaxError:
            return False
        while isinstance(node, ast.UnaryOp) and isinstance(node.op, ast.Not):
            node, pol = node.operand, (not pol if pol is not None else None)
    return _cmp_failed(fn, node, pol)


def _cmp_failed(fn, node, pol) -> bool:
    """`node` evaluating to `pol` says that two whole contents differ: `a == b` false, `a != b` true, `_contents_eq(..)` false.
    A side that is a read of a file (`f.read()`) or a local holding one counts as contents."""
    from .common import expand_locals
    if isinstance(node, ast.Compare) and len(node.ops) == 1 and isinstance(node.ops[0], ast.NotEq):
        node = ast.Compare(left=node.left, ops=[ast.Eq()], comparators=node.comparators)
        pol = (not pol) if pol is not None else None
    if _is_content_cmp(node):
        return pol is False
    if isinstance(node, ast.Compare) and len(node.ops) == 1 and isinstance(node.ops[0], ast.Eq):
        sides = [expand_locals(fn, x) for x in (node.left, node.comparators[0])]
        if all(isinstance(x, ast.Name) or t.endswith(".read()") for x, t in zip((node.left, node.comparators[0]), sides)):
            return pol is False
    return False


GUARDED = [(f"{CORE}:Kconfig.write_config", "filename"), (f"{CORE}:Kconfig._write_if_changed", "filename"),
           ("kconfgen.core:update_if_changed", "destination")]


def r13_1(ctx):
    """R13.1 compare before truncate: on every path to the truncating open of the destination, either the destination
    was found absent or a content-equality test on the new contents failed (the equal case leaves the function)."""
    repo = ctx.repo
    for q, param in GUARDED:
        f = repo.func(q)
        ctx.analysed(q)
        opens = [(c, p, m) for c, p, m in truncating_opens(f.node) if p == param and m.startswith("w")]
        construct = f"{f.short}/truncating open of `{param}` only after a failed content comparison"
        if not opens:
            raise AnchorError(f"{f.short}: no truncating open of {param}")
        target = opens[0][0]

        def on_stmt(st, p: Path, loops, _t=target):
            if any(x is _t for x in ast.walk(st) if not isinstance(st, (ast.If, ast.For, ast.While, ast.Try)) or True) and \
                    any(x is _t for x in ([y for it in st.items for y in ast.walk(it.context_expr)] if isinstance(st, ast.With) else ast.walk(st))):
                p.events.append(("OPEN", st.lineno, None))
            if isinstance(st, ast.Assign) and len(st.targets) == 1 and isinstance(st.targets[0], ast.Name):
                p.events.append(("ASSIGN:" + st.targets[0].id, st.lineno, st.value))

        paths = Enumerator(on_stmt, max_iter=1).run(f.node.body, Path())
        bad = 0
        n_open = 0
        for p, status in paths:
            if not any(e[0] == "OPEN" for e in p.events):
                continue
            n_open += 1
            ln = [e[1] for e in p.events if e[0] == "OPEN"][0]
            def _flag_value(node, line, p=p):
                """the value last assigned (on this path, before `line`) to the flag local the condition tests"""
                neg = False
                while isinstance(node, ast.UnaryOp) and isinstance(node.op, ast.Not):
                    node, neg = node.operand, not neg
                if not isinstance(node, ast.Name):
                    return None, neg
                last = [e for e in p.events if e[0] == "ASSIGN:" + node.id and e[1] <= line]
                return (last[-1][2] if last else None), neg

            def _failed(c, pol, l2, node):
                if _failed_content_cmp(f.node, node, pol):
                    return True
                v, neg = _flag_value(node, l2)
                if v is None or pol is None:
                    return False
                return _cmp_failed(f.node, v, (not pol) if neg else pol)
            compared = any(_failed(c, pol, l2, node) and l2 <= ln for c, pol, l2, node in p.conds)
            absent = any(c in (f"os.path.exists({param})", f"exists({param})") and pol is False for c, pol, _, _ in p.conds)
            if not (compared or absent):
                bad += 1
        if n_open == 0:
            raise AnalysisError(f"{f.short}: the truncating open is unreachable in the path enumeration")
        if bad:
            ctx.bad(construct, f"{bad} of {n_open} paths reach open({param}, 'w') without the destination having been found absent or "
                    "different: an unchanged output is rewritten (new mtime)", f.loc(target))
        else:
            ctx.ok(construct, f.loc(target), paths_to_open=n_open)
    # all public writers of generated files go through the guarded helpers
    for q, helper in ((f"{CORE}:Kconfig.write_autoconf", "self._write_if_changed"), (f"{CORE}:Kconfig.write_min_config", "self._write_if_changed"),
                      (f"{CORE}:Kconfig._write_old_vals", "self._write_if_changed")):
        f = repo.func(q)
        ctx.analysed(q)
        construct = f"{f.short}/writes through _write_if_changed"
        raw = truncating_opens(f.node)
        ok = any(isinstance(n, ast.Call) and ast.unparse(n.func) == helper for n in ast.walk(f.node)) and not raw
        (ctx.ok(construct, f.loc()) if ok else ctx.bad(construct, f"no call of {helper} or a raw truncating open: {[(p, m) for _, p, m in raw]}", f.loc()))


def r13_1b(ctx):
    """R13.1b _contents_eq compares the whole file: it reads more than len(contents) characters (or everything) and tests
    equality with the new contents; unreadable/missing files count as different."""
    repo = ctx.repo
    f = repo.func(f"{CORE}:Kconfig._contents_eq")
    ctx.analysed(f.qual)
    cparam = f.node.args.args[2].arg
    reads = [n for n in ast.walk(f.node) if isinstance(n, ast.Call) and isinstance(n.func, ast.Attribute) and n.func.attr == "read"]
    construct = "Kconfig._contents_eq/reads beyond len(contents) and compares for equality"
    ok = False
    if reads:
        from .common import expand_locals
        r = reads[0]
        if not r.args:
            ok = True
        else:
            a = expand_locals(f.node, r.args[0]).replace(" ", "")
            import re as _re
            m = _re.fullmatch(rf"len\({cparam}\)\+(\d+)|(\d+)\+len\({cparam}\)", a)
            ok = bool(m) and int(m.group(1) or m.group(2)) >= 1
        # the value read is compared for equality with the new contents (directly or through a local), and that is what
        # the function returns
        rtxt = ast.unparse(r).replace('"', "'")
        cmps = [n for n in ast.walk(f.node) if isinstance(n, ast.Compare) and len(n.ops) == 1 and isinstance(n.ops[0], ast.Eq)
                and {expand_locals(f.node, n.left), expand_locals(f.node, n.comparators[0])} == {expand_locals(f.node, r), cparam}]
        rets = [n for n in ast.walk(f.node) if isinstance(n, ast.Return) and n.value is not None and ast.unparse(n.value) != "False"]
        ok = ok and bool(cmps) and bool(rets) and all(
            expand_locals(f.node, x.value) in {expand_locals(f.node, c) for c in cmps} for x in rets)
    if ok:
        ctx.ok(construct, f.loc(reads[0]))
    else:
        ctx.bad(construct, "a file that merely starts with the new contents (or differs beyond them) is treated as unchanged, or the "
                "comparison is not an equality with the new contents", f.loc(reads[0] if reads else f.node))
    construct = "Kconfig._contents_eq/missing or unreadable file counts as different"
    hs = [h for n in ast.walk(f.node) if isinstance(n, ast.Try) for h in n.handlers]
    ok = bool(hs) and all(any(isinstance(x, ast.Return) and ast.unparse(x.value) == "False" for x in h.body) for h in hs)
    (ctx.ok(construct, f.loc(), nontrivial=False) if ok else ctx.bad(construct, "the error handler does not return False", f.loc()))


UNGUARDED_WRITERS = ["kconfgen.core:write_cmake", "kconfgen.core:write_json", "kconfgen.core:write_json_menus",
                     "kconfgen.core:write_docs", "kconfgen.core:write_report", "kconfgen.core:write_header",
                     "kconfgen.core:write_config", "kconfgen.core:write_min_config"]


def r13_2(ctx):
    """R13.2 writers that truncate without comparing are only fed temporaries: inside the packages the kconfgen output
    functions are called only through OUTPUT_FORMATS in main(), on the name of a NamedTemporaryFile, and the call is
    followed by update_if_changed(temp, destination) on the normal path."""
    repo = ctx.repo
    cg = CallGraph(repo)
    main = repo.func("kconfgen.core:main")
    ctx.analysed(main.qual)
    # table membership
    tbl = repo.resolve_const("kconfgen.core", "OUTPUT_FORMATS")
    if not isinstance(tbl, ast.Dict):
        raise AnchorError("kconfgen.OUTPUT_FORMATS is not a dict literal")
    in_table = {ast.unparse(v) for v in tbl.values}
    direct_truncators = []
    for q in UNGUARDED_WRITERS:
        f = repo.func(q)
        raw = [(p, m) for _, p, m in truncating_opens(f.node)]
        params = {a.arg for a in f.node.args.args}
        if any(p in params for p, _ in raw):
            direct_truncators.append(f)
    for f in direct_truncators:
        callers = [(c, call) for c, call in cg.callers(f.qual, weak=False) if c.qual != f.qual]
        construct = f"{f.short}/truncates its filename without comparing: never called on a destination directly"
        outside = [(c, call) for c, call in callers]
        if f.name not in in_table:
            ctx.bad(construct, "not dispatched through OUTPUT_FORMATS", f.loc())
        elif outside:
            c, call = outside[0]
            ctx.bad(construct, f"called directly from {c.short}: the destination is rewritten even when unchanged", c.loc(call))
        else:
            ctx.ok(construct, f.loc(), dispatched_via="OUTPUT_FORMATS")
    # main loop discipline
    res = Resolver(main.node)
    # the generator is taken from the table: `fn = OUTPUT_FORMATS[fmt]; fn(...)` or `OUTPUT_FORMATS[fmt](...)`
    dispatch = [n for n in ast.walk(main.node) if isinstance(n, ast.Call) and isinstance(n.func, (ast.Name, ast.Subscript))
                and ast.unparse(res.resolve(n.func)).startswith("OUTPUT_FORMATS[")]
    upd = [n for n in ast.walk(main.node) if isinstance(n, ast.Call) and ast.unparse(n.func) == "update_if_changed"]
    construct = "kconfgen.main/output written to a temporary and copied with update_if_changed"
    if not dispatch or not upd:
        ctx.bad(construct, "no call of a generator taken from OUTPUT_FORMATS, or no update_if_changed call, in main()", main.loc())
        return
    d, u = dispatch[0], upd[0]
    tmpname = ast.unparse(d.args[1]) if len(d.args) > 1 else ""
    msgs = []
    asg = [n for n in ast.walk(main.node) if isinstance(n, ast.Assign) and ast.unparse(n.targets[0]) == tmpname]
    # the assignment in the same loop body: temp_file = f.name with f from NamedTemporaryFile
    loop = None
    p = repo.parent(d)
    while p is not None and p is not main.node:
        if isinstance(p, ast.For):
            loop = p
            break
        p = repo.parent(p)
    if loop is None:
        msgs.append("dispatch is not inside the output loop")
    else:
        local = [a for a in asg if any(a is x for x in ast.walk(loop))]
        with_tmp = [w for w in ast.walk(loop) if isinstance(w, ast.With) and "NamedTemporaryFile" in ast.unparse(w.items[0].context_expr)]
        # follow plain aliases inside the loop (`temp_file = tmp_name` ... `tmp_name = f.name`)
        val = local[0].value if local else None
        for _ in range(3):
            if isinstance(val, ast.Name):
                nxt = [a for a in ast.walk(loop) if isinstance(a, ast.Assign) and len(a.targets) == 1 and ast.unparse(a.targets[0]) == val.id]
                if len(nxt) != 1:
                    break
                val = nxt[0].value
        if not local or not with_tmp or val is None or ast.unparse(val) != f"{ast.unparse(with_tmp[0].items[0].optional_vars)}.name":
            msgs.append(f"`{tmpname}` is not the name of a NamedTemporaryFile created in the loop")
        if ast.unparse(u.args[0]) != tmpname or ast.unparse(u.args[1]) != ast.unparse(loop.target.elts[1] if isinstance(loop.target, ast.Tuple) else loop.target):
            msgs.append("update_if_changed is not called with (temporary, destination)")
        ds, us = repo.enclosing_stmt(d), repo.enclosing_stmt(u)
        par = repo.parent(ds)
        body = getattr(par, "body", [])
        if not (ds in body and us in body and body.index(ds) < body.index(us)):
            msgs.append("update_if_changed does not follow the output function in the same block")
        if not ast.unparse(res.resolve(d.func)).startswith(f"OUTPUT_FORMATS[{ast.unparse(res.resolve(loop.target.elts[0])) if isinstance(loop.target, ast.Tuple) else ''}"):
            msgs.append("the output function is not taken from OUTPUT_FORMATS by the requested format")
    (ctx.bad(construct, "; ".join(msgs), main.loc(d)) if msgs else ctx.ok(construct, main.loc(d)))


def r13_3(ctx):
    """R13.3 backup before truncate: in write_config `_save_old(filename)` (under save_old) precedes the truncating open and
    follows the comparison; _save_old copies through symlinks with an independent regular copy and moves regular files
    atomically (os.replace / os.rename)."""
    repo = ctx.repo
    f = repo.func(f"{CORE}:Kconfig.write_config")
    ctx.analysed(f.qual)
    res = Resolver(f.node)

    def events(node):
        out = []
        if isinstance(node, (ast.If, ast.For, ast.While, ast.Try)):
            return out
        src = node.items[0].context_expr if isinstance(node, ast.With) else node
        for n in ast.walk(src):
            if isinstance(n, ast.Call) and ast.unparse(n.func) == "_save_old" and ast.unparse(n.args[0]) == "filename":
                out.append("backup")
        return out

    fl = Flow(f.node, resolver=res, events=events).run()
    op = [c for c, p, m in truncating_opens(f.node) if p == "filename"]
    if not op:
        raise AnchorError("write_config: no truncating open of filename")
    site = repo.enclosing_stmt(op[0])
    gs = fl.guards_at(site, learned=True) or set()
    evs = fl.events_at(site) or set()
    construct = "Kconfig.write_config/backup precedes the truncating open whenever save_old is set"
    # path-sensitive: enumerate
    target = op[0]

    def on_stmt(st, p: Path, loops):
        src = st.items[0].context_expr if isinstance(st, ast.With) else st
        if isinstance(st, (ast.If, ast.For, ast.While, ast.Try)):
            return
        for n in ast.walk(src):
            if n is target:
                p.events.append(("OPEN", st.lineno, None))
            if isinstance(st, ast.Assign) and len(st.targets) == 1 and isinstance(st.targets[0], ast.Name):
                p.events.append(("ASSIGN:" + st.targets[0].id, st.lineno, st.value))
            if isinstance(n, ast.Call) and ast.unparse(n.func) == "_save_old" and n.args and ast.unparse(n.args[0]) == "filename":
                p.events.append(("BACKUP", st.lineno, None))
            if isinstance(n, ast.Call) and ast.unparse(n.func) in ("open", "os.open") and n is not target and "filename" in ast.unparse(n) \
                    and any(ast.unparse(a).startswith("'w") or ast.unparse(a).startswith('"w') for a in n.args[1:2]):
                p.events.append(("OTHERWRITE", st.lineno, None))

    paths = Enumerator(on_stmt).run(f.node.body, Path())
    bad = []
    n_open = 0
    for p, status in paths:
        names = p.names()
        if "OPEN" not in names:
            continue
        n_open += 1
        i_open = names.index("OPEN")
        so = p.flags.get("save_old")
        if so is not False and "BACKUP" not in names[:i_open]:
            bad.append("open without backup on a save_old path")
        if "BACKUP" in names[i_open:]:
            bad.append("backup after the truncating open")
        if "OTHERWRITE" in names[:i_open]:
            bad.append("another write of filename before the backup/open")
    if n_open == 0:
        raise AnalysisError("write_config: open unreachable")
    (ctx.bad(construct, "; ".join(sorted(set(bad))), f.loc(target)) if bad else ctx.ok(construct, f.loc(target), paths_to_open=n_open))
    construct = "Kconfig.write_config/save_old defaults to True"
    d = dict(zip([a.arg for a in f.node.args.args][-len(f.node.args.defaults):], f.node.args.defaults))
    ok = "save_old" in d and ast.unparse(d["save_old"]) == "True"
    (ctx.ok(construct, f.loc(), nontrivial=False) if ok else ctx.bad(construct, "backup is no longer enabled by default", f.loc()))
    # _save_old: what is done with (path, path + ".old"), however the operation is selected (a callable picked into a
    # local and called once, or a direct if/elif chain) and wherever the copy helper lives
    s = repo.func(f"{CORE}:_save_old")
    ctx.analysed(s.qual)
    path = s.node.args.args[0].arg
    rs = Resolver(s.node)
    fs = Flow(s.node, resolver=rs).run()

    def copy_helper(name: str):
        for h in repo.funcs_in(CORE):
            if h.name == name and (h.parent is s or (h.parent is None and h.cls is None)):
                cc_ = [n for n in ast.walk(h.node) if isinstance(n, ast.Call) and ast.unparse(n.func).endswith("copyfile")]
                if cc_:
                    return h, cc_[0]
        return None

    def kind(e: ast.AST):
        t = ast.unparse(e)
        if t in ("os.replace", "os.rename"):
            return "move", None
        if t.endswith("copyfile"):
            return "copy", None
        if isinstance(e, ast.Name) and copy_helper(e.id):
            return "copy", copy_helper(e.id)
        return None, None

    from .common import expand_locals
    want_args = [path, f"{path} + '.old'"]
    arms = []  # (kind, guards, node, helper)
    for n in ast.walk(s.node):
        if not (isinstance(n, ast.Call) and repo.enclosing_func(n) is s and len(n.args) == 2):
            continue
        if [expand_locals(s.node, a_) for a_ in n.args] != want_args:
            continue
        k, h = kind(n.func)
        if k:
            arms.append((k, fs.guards_at(n) or set(), n, h))
        elif isinstance(n.func, ast.Name):
            # a callable chosen earlier: one arm per assignment to that local
            for a_ in ast.walk(s.node):
                if isinstance(a_, ast.Assign) and repo.enclosing_func(a_) is s and isinstance(a_.targets[0], ast.Name) and a_.targets[0].id == n.func.id:
                    k2, h2 = kind(a_.value)
                    arms.append((k2 or "?" + ast.unparse(a_.value), fs.guards_at(a_) or set(), a_, h2))
    construct = "_save_old/symlink arm copies, regular-file arm moves atomically"
    if not arms:
        ctx.bad(construct, f"no operation on ({path}, {path} + '.old') found", s.loc())
    else:
        islink = {f"islink({path})", f"os.path.islink({path})"}

        def is_link(g):
            return any(expand_locals(s.node, ast.parse(k_, mode="eval").body) in islink and p_ for k_, p_ in g if _parses(k_))

        link = [k_ for k_, g_, _, _ in arms if is_link(g_)]
        nolink = [k_ for k_, g_, _, _ in arms if not is_link(g_)]
        msgs = []
        if not link or any(k_ != "copy" for k_ in link):
            msgs.append(f"symlink arm uses {link} instead of a copy (the link would be replaced / lost)")
        if not nolink or nolink[0] != "move":
            msgs.append(f"regular files are first backed up with {nolink[0] if nolink else None} instead of an atomic move")
        (ctx.bad(construct, "; ".join(msgs), s.loc(arms[0][2])) if msgs else ctx.ok(construct, s.loc(arms[0][2]), arms=[(k_, sorted(map(str, g_))) for k_, g_, _, _ in arms]))
    construct = "_save_old.copy/independent regular copy (follows the link)"
    helpers = [h for k_, _, _, h in arms if k_ == "copy" and h]
    direct = [n_ for k_, _, n_, h in arms if k_ == "copy" and not h and isinstance(n_, ast.Call)]
    if not helpers and not direct:
        ctx.bad(construct, "no copy operation found for the symlink case", s.loc())
    else:
        okc = True
        for h, c_ in helpers:
            okc = okc and not any(kw.arg == "follow_symlinks" and ast.unparse(kw.value) == "False" for kw in c_.keywords) \
                and [ast.unparse(a_) for a_ in c_.args] == [a_.arg for a_ in h.node.args.args]
        for c_ in direct:
            okc = okc and not any(kw.arg == "follow_symlinks" and ast.unparse(kw.value) == "False" for kw in c_.keywords)
        (ctx.ok(construct, s.loc()) if okc else ctx.bad(construct, "the backup of a symlinked configuration is not an independent copy of its contents: "
                                                        "truncating the destination truncates the backup too", s.loc()))


def _parses(k: str) -> bool:
    try:
        ast.parse(k, mode="eval")
        return True
    except SyntaxError:
        return False


def r13_4(ctx):
    """R13.4 regenerating an unchanged configuration produces the same text: (a) alias tables keep insertion order (no
    hash-ordered container between the rename files and the generated text, C07 R07.7); (b) the default marker of a line is
    decided from the freshly evaluated value (C03 R03.6), so two consecutive writes of one configuration agree; (c) the
    backup name is the destination name plus `.old` (appended, not a replaced suffix); (d) no generator iterates a set
    attribute directly (hash order differs between runs: kconfgen's `report` format)."""
    from . import c03, c07
    before = len(ctx.instances)
    c07.r07_7(ctx)
    keep = [i for i in ctx.instances[before:] if "insertion order" in i.construct]
    dropped = {i.construct for i in ctx.instances[before:]} - {i.construct for i in keep}
    ctx.instances[before:] = keep
    ctx.findings[:] = [f for f in ctx.findings if not (f.rule == ctx._rule and f.construct in dropped)]
    before = len(ctx.instances)
    c03.r03_6(ctx)
    keep = [i for i in ctx.instances[before:] if i.construct.startswith("Symbol.config_string/")]
    dropped = {i.construct for i in ctx.instances[before:]} - {i.construct for i in keep}
    ctx.instances[before:] = keep
    ctx.findings[:] = [f for f in ctx.findings if not (f.rule == ctx._rule and f.construct in dropped)]
    from .common import no_unordered_iteration
    no_unordered_iteration(ctx, ["esp_kconfiglib.report", "esp_kconfiglib.deprecated", "kconfgen.core"],
                           "the generated report / output text of an unchanged configuration differs from the previous run and the destination is rewritten")
    repo = ctx.repo
    s = repo.func(f"{CORE}:_save_old")
    path = s.node.args.args[0].arg
    from .common import expand_locals
    calls = [n for n in ast.walk(s.node) if isinstance(n, ast.Call) and repo.enclosing_func(n) is s and len(n.args) == 2
             and ast.unparse(n.args[0]) == path]
    construct = "_save_old/backup is <destination>.old"
    ok = bool(calls) and all(expand_locals(s.node, c_.args[1]) == f"{path} + '.old'" for c_ in calls)
    (ctx.ok(construct, s.loc(calls[0]) if calls else s.loc()) if ok else
     ctx.bad(construct, f"the backup goes to `{ast.unparse(calls[0].args[1]) if calls else '?'}`: for a destination with a dot in its name (sdkconfig.ci) the previous contents are "
             "not in <destination>.old", s.loc(calls[0]) if calls else s.loc()))


def r13_5(ctx):
    """R13.5 the backup is never switched off by a caller inside the packages: every call of Kconfig.write_config() leaves
    `save_old` at its default (or passes True). kconfgen's wrapper is also the config server's `save`, which overwrites
    the user's sdkconfig in place - without the `.old` copy a crash after the truncating open leaves no complete file."""
    repo = ctx.repo
    n = 0
    for m in sorted(repo.modules):
        for f in repo.funcs_in(m):
            for c in ast.walk(f.node):
                if isinstance(c, ast.Call) and isinstance(c.func, ast.Attribute) and c.func.attr == "write_config":
                    n += 1
                    kw = {k.arg: k.value for k in c.keywords if k.arg}
                    construct = f"{f.short}/{ast.unparse(c.func)}(...) keeps the backup"
                    so = kw.get("save_old")
                    if so is None and len(c.args) >= 3 and "config.write_config" not in ast.unparse(c.func):
                        so = None
                    if so is not None and not (isinstance(so, ast.Constant) and so.value is True):
                        ctx.bad(construct, f"save_old={ast.unparse(so)}: the previous configuration is not kept while the destination is rewritten", f.loc(c))
                    else:
                        ctx.ok(construct, f.loc(c), nontrivial=False)
    if n < 3:
        raise AnalysisError(f"only {n} write_config call sites found")


def r13_6(ctx):
    """R13.6 an unchanged configuration touches no trigger file either: the old values read from auto.conf are decoded the way
    they were written (C12 R12.4: same matcher, strings unescaped) - otherwise an option with a quote or backslash in its
    value never compares equal and its .cdep file is re-touched on every generation."""
    from . import c12
    from .common import delegate
    delegate(ctx, c12.r12_4, lambda c: c.startswith("Kconfig._load_old_vals/"))

def r13_7(ctx):
    """R13.7 auto.conf records every written option: _old_vals_contents leaves out n-valued bools only (C12 R12.2) - an option that is
    missing there has no old value at the next sync, so its trigger file is touched although nothing changed."""
    from . import c12
    from .common import delegate
    delegate(ctx, c12.r12_2, lambda c: "_old_vals_contents/records" in c)


def r13_8(ctx):
    """R13.8 an existing destination that cannot be decoded is simply different: _contents_eq() answers False instead of raising when
    the file on disk is not valid text in the configured encoding (C12 R12.11) - the output is then rewritten, not abandoned."""
    from . import c12
    from .common import delegate
    delegate(ctx, c12.r12_11, lambda c: "_contents_eq" in c)


def r13_9(ctx):
    """R13.9 what auto.conf records is what sync_deps compares with: Symbol.config_string writes the evaluated value as it is (C02 R02.11a) -
    a prefix added on the way makes every hex option differ from its own record, and its trigger file is touched by every run."""
    from . import c02
    from .common import delegate
    delegate(ctx, c02.r02_11, lambda c: 'config_string' in c)


def r13_10(ctx):
    """R13.10 what is written is what was compared: _write_if_changed() writes exactly the text it handed to _contents_eq() - one
    write of the `contents` parameter. Anything added while writing (a final newline) makes the file differ from the text of
    the next, unchanged generation, and it is rewritten every time."""
    repo = ctx.repo
    f = repo.func(f"{CORE}:Kconfig._write_if_changed")
    ctx.analysed(f.qual)
    prm = [a.arg for a in f.node.args.args][2]
    writes = [n for n in ast.walk(f.node) if isinstance(n, ast.Call) and isinstance(n.func, ast.Attribute) and n.func.attr in ("write", "writelines")]
    cmp = [n for n in ast.walk(f.node) if isinstance(n, ast.Call) and ast.unparse(n.func).endswith("_contents_eq")]
    if not writes or not cmp:
        raise AnchorError("_write_if_changed: write / _contents_eq not found")
    construct = "Kconfig._write_if_changed/the file gets the compared text and nothing else"
    ok = len(writes) == 1 and writes[0].func.attr == "write" and len(writes[0].args) == 1 and ast.unparse(writes[0].args[0]) == prm and ast.unparse(cmp[0].args[1]) == prm
    other = [w for w in writes if not (len(w.args) == 1 and ast.unparse(w.args[0]) == prm)]
    (ctx.ok(construct, f.loc(writes[0])) if ok else
     ctx.bad(construct, f"`{ast.unparse((other or writes)[0])[:60]}` writes something else than `{prm}`: the file never equals the text of the next generation and is rewritten "
             "(new modification time) although nothing changed", f.loc((other or writes)[0])))


def r13_11(ctx):
    """R13.11 an unchanged configuration touches nothing, sync after sync: the old value of every symbol is reset at the start of
    each _load_old_vals() (C12 R12.6) - a value that survives from an earlier sync of the same instance makes every later
    sync re-touch the option's dependency file."""
    from . import c12
    from .common import delegate
    delegate(ctx, c12.r12_6, lambda c: "_load_old_vals" in c)


def r13_12(ctx):
    """R13.12 kconfgen's update_if_changed() compares like with like: the generated file and the existing destination are
    read with the same open() keywords (encoding, newline, errors). With different newline modes a carriage return inside
    a value is `\\r` on one side and `\\n` on the other: the texts never compare equal and the unchanged output is
    rewritten on every run."""
    repo = ctx.repo
    f = repo.func("kconfgen.core:update_if_changed")
    ctx.analysed(f.qual)
    construct = "update_if_changed/both compared texts are read in the same mode"
    reads = []
    for n in ast.walk(f.node):
        if isinstance(n, ast.Call) and ast.unparse(n.func) in ("open", "io.open") and n.args:
            mode = ast.unparse(n.args[1]) if len(n.args) > 1 else next((ast.unparse(k.value) for k in n.keywords if k.arg == "mode"), "'r'")
            if "w" in mode or "a" in mode or "x" in mode:
                continue
            reads.append((n, mode, tuple(sorted((k.arg or "**", ast.unparse(k.value)) for k in n.keywords if k.arg != "mode"))))
    if len(reads) < 2:
        ctx.ok(construct, f.loc(), nontrivial=False, reads=len(reads))
        return
    kinds = {(m, kw) for _, m, kw in reads}
    if len(kinds) > 1:
        a, b = reads[0], next(r for r in reads if (r[1], r[2]) != (reads[0][1], reads[0][2]))
        ctx.bad(construct, f"`{ast.unparse(a[0])[:70]}` and `{ast.unparse(b[0])[:70]}` differ in their keywords: a value containing a carriage return "
                "never compares equal, the unchanged output is rewritten on every run", f.loc(b[0]))
    else:
        ctx.ok(construct, f.loc(reads[0][0]), reads=len(reads))


def rules():
    return [("R13.12", r13_12, 1), ("R13.11", r13_11, 1), ("R13.10", r13_10, 1), ("R13.9", r13_9, 1), ("R13.8", r13_8, 1), ("R13.7", r13_7, 1), ("R13.6", r13_6, 4), ("R13.5", r13_5, 3), ("R13.1", r13_1, 6), ("R13.1b", r13_1b, 2), ("R13.2", r13_2, 4), ("R13.3", r13_3, 4), ("R13.4", r13_4, 3)]
