"""Structured forward dataflow over one function body (Python control flow is structured, so no
graph is needed). States are frozensets of hashable facts. Two joins:

* must (intersection): guard facts and "has executed" events -> dominance, guard sets
* may  (union): pending obligations -> "every path from A to exit passes B"

Handles if/elif/else, for/while (+else, break, continue), return, raise, try/except/else/finally,
with. Anything else is an AnalysisError (fail closed).

Guard facts are (key, polarity) with key the canonical text of the *resolved* atom (locals that
are single-assignment aliases of an access path are substituted, see Resolver). Event facts are
("ev", name).
"""
from __future__ import annotations

import ast
from typing import Callable, Dict, FrozenSet, Iterable, List, Optional, Set, Tuple

State = FrozenSet[tuple]


class AnalysisError(Exception):
    pass


# --------------------------------------------------------------------------- name resolution
STAR = ast.Name(id="*", ctx=ast.Load())


def _is_pure_path(e: ast.AST) -> bool:
    if isinstance(e, ast.Name):
        return True
    if isinstance(e, ast.Attribute):
        return _is_pure_path(e.value)
    if isinstance(e, ast.Subscript):
        return _is_pure_path(e.value) and isinstance(e.slice, (ast.Constant, ast.Name))
    return False


class Resolver:
    """Maps local names of one function to access paths when that is unambiguous:
    * `x = <pure path>` with x bound exactly once in the function
    * `for a, b in <pure path>` / `for x in <pure path>` with the targets bound exactly once
    * `a, b = <pure path>` (tuple projection) with single binding
    Everything else stays a plain name."""

    def __init__(self, fn: ast.AST, extra: Optional[Dict[str, ast.AST]] = None):
        self.fn = fn
        self.bind_count: Dict[str, int] = {}
        self.cand: Dict[str, ast.AST] = {}
        self._collect(fn)
        self.map: Dict[str, ast.AST] = {}
        for name, e in self.cand.items():
            if self.bind_count.get(name, 0) == 1:
                self.map[name] = e
        if extra:
            self.map.update(extra)
        self._cache: Dict[str, ast.AST] = {}

    def _bind(self, t: ast.AST, path: Optional[ast.AST]):
        if isinstance(t, ast.Name):
            self.bind_count[t.id] = self.bind_count.get(t.id, 0) + 1
            if path is not None:
                self.cand[t.id] = path
        elif isinstance(t, (ast.Tuple, ast.List)):
            for i, el in enumerate(t.elts):
                if isinstance(el, ast.Starred):
                    self._bind(el.value, None)
                else:
                    sub = None
                    if path is not None:
                        sub = ast.Subscript(value=path, slice=ast.Constant(i), ctx=ast.Load())
                    self._bind(el, sub)

    def _collect(self, fn: ast.AST):
        args = fn.args  # type: ignore[attr-defined]
        for a in list(args.posonlyargs) + list(args.args) + list(args.kwonlyargs):
            self.bind_count[a.arg] = self.bind_count.get(a.arg, 0) + 1
        for a in (args.vararg, args.kwarg):
            if a is not None:
                self.bind_count[a.arg] = self.bind_count.get(a.arg, 0) + 1

        def walk(n: ast.AST):
            for c in ast.iter_child_nodes(n):
                if isinstance(c, (ast.FunctionDef, ast.AsyncFunctionDef, ast.ClassDef)):
                    self.bind_count[c.name] = self.bind_count.get(c.name, 0) + 1
                    continue
                if isinstance(c, ast.Lambda):
                    continue
                if isinstance(c, ast.Assign):
                    if isinstance(c.value, (ast.Tuple, ast.List)) and all(isinstance(t, (ast.Tuple, ast.List)) and len(t.elts) == len(c.value.elts)
                                                                           and not any(isinstance(x, ast.Starred) for x in t.elts) for t in c.targets):
                        # `a, b = x[0], x[1]`: element-wise single assignments
                        for t in c.targets:
                            for tt, vv in zip(t.elts, c.value.elts):
                                self._bind(tt, vv if _is_pure_path(vv) else None)
                    else:
                        p = c.value if _is_pure_path(c.value) else None
                        for t in c.targets:
                            self._bind(t, p)
                elif isinstance(c, ast.AnnAssign):
                    if c.value is not None:
                        self._bind(c.target, c.value if _is_pure_path(c.value) else None)
                    elif isinstance(c.target, ast.Name):
                        pass  # bare annotation binds nothing
                elif isinstance(c, ast.AugAssign):
                    self._bind(c.target, None)
                    self._bind(c.target, None)  # never single-assignment
                elif isinstance(c, (ast.For, ast.AsyncFor)):
                    p = None
                    if _is_pure_path(c.iter):
                        p = ast.Subscript(value=c.iter, slice=STAR, ctx=ast.Load())
                    self._bind(c.target, p)
                elif isinstance(c, (ast.With, ast.AsyncWith)):
                    for it in c.items:
                        if it.optional_vars is not None:
                            self._bind(it.optional_vars, None)
                elif isinstance(c, ast.ExceptHandler):
                    if c.name:
                        self.bind_count[c.name] = self.bind_count.get(c.name, 0) + 1
                elif isinstance(c, ast.NamedExpr):
                    self._bind(c.target, None)
                elif isinstance(c, (ast.Import, ast.ImportFrom)):
                    for al in c.names:
                        nm = (al.asname or al.name).split(".")[0]
                        self.bind_count[nm] = self.bind_count.get(nm, 0) + 1
                elif isinstance(c, (ast.ListComp, ast.SetComp, ast.DictComp, ast.GeneratorExp)):
                    continue  # own scope
                walk(c)

        walk(fn)

    def resolve(self, e: ast.AST, _depth: int = 0) -> ast.AST:
        """Return a copy of e with resolvable names replaced by their access paths."""
        if _depth > 12:
            return e
        if isinstance(e, ast.Name):
            tgt = self.map.get(e.id)
            if tgt is None:
                return e
            return self.resolve(tgt, _depth + 1)
        if isinstance(e, ast.Attribute):
            return ast.Attribute(value=self.resolve(e.value, _depth), attr=e.attr, ctx=ast.Load())
        if isinstance(e, ast.Subscript):
            sl = e.slice
            return ast.Subscript(value=self.resolve(e.value, _depth), slice=sl if isinstance(sl, ast.Constant) or sl is STAR else self.resolve(sl, _depth), ctx=ast.Load())
        if isinstance(e, (ast.ListComp, ast.SetComp, ast.DictComp, ast.GeneratorExp, ast.Lambda)):
            return e
        new = type(e)()
        for f, v in ast.iter_fields(e):
            if isinstance(v, ast.AST):
                setattr(new, f, self.resolve(v, _depth))
            elif isinstance(v, list):
                setattr(new, f, [self.resolve(x, _depth) if isinstance(x, ast.AST) else x for x in v])
            else:
                setattr(new, f, v)
        return new

    def text(self, e: ast.AST) -> str:
        return ast.unparse(self.resolve(e))


def loc_text(e: ast.AST) -> Optional[str]:
    """Text of an assignable location (name / attribute chain / constant subscript)."""
    if _is_pure_path(e):
        return ast.unparse(e)
    return None


# --------------------------------------------------------------------------- atoms
def decompose(test: ast.AST, pol: bool) -> List[Tuple[ast.AST, bool]]:
    """Atoms that necessarily hold when `test` evaluates to `pol`."""
    if isinstance(test, ast.UnaryOp) and isinstance(test.op, ast.Not):
        return decompose(test.operand, not pol)
    if isinstance(test, ast.BoolOp):
        if isinstance(test.op, ast.And) and pol:
            out = []
            for v in test.values:
                out += decompose(v, True)
            return out
        if isinstance(test.op, ast.Or) and not pol:
            out = []
            for v in test.values:
                out += decompose(v, False)
            return out
        # `a and b` is false / `a or b` is true: no atom follows, the compound test itself is the fact (also when it is
        # nested in a conjunction: `x and not (a and b)`)
        return [(test, pol)]
    if isinstance(test, ast.NamedExpr):
        return decompose(test.value, pol) + [(test.target, pol)]
    return [(test, pol)]


_NEG = {ast.IsNot: ast.Is, ast.NotEq: ast.Eq, ast.NotIn: ast.In}


def canon_atom(resolver: Resolver, atom: ast.AST, pol: bool) -> Tuple[str, bool]:
    """Canonical (key, polarity): negative comparison operators are folded into the polarity."""
    a = resolver.resolve(atom)
    if isinstance(a, ast.Compare) and len(a.ops) == 1:
        op = a.ops[0]
        for neg, posop in _NEG.items():
            if isinstance(op, neg):
                a = ast.Compare(left=a.left, ops=[posop()], comparators=a.comparators)
                pol = not pol
                break
    return ast.unparse(a), pol


# --------------------------------------------------------------------------- the flow engine
MUTATORS = {"remove", "append", "pop", "clear", "add", "update", "extend", "insert", "discard", "sort", "reverse",
            "popitem", "setdefault", "appendleft", "popleft"}


class Out:
    __slots__ = ("normal", "brk", "cont", "ret", "exc")

    def __init__(self, normal):
        self.normal: Optional[State] = normal
        self.brk: List[State] = []
        self.cont: List[State] = []
        self.ret: List[Tuple[ast.AST, State]] = []
        self.exc: List[Tuple[ast.AST, State]] = []

    def absorb(self, o: "Out"):
        self.brk += o.brk
        self.cont += o.cont
        self.ret += o.ret
        self.exc += o.exc


class Flow:
    """Run with Flow(fn_node, ...).run(). Results:
    before[id(node)] : state before each statement and each evaluated test / for-iter
    after[id(stmt)]  : state after each simple statement
    exits            : list of (kind, node, state) with kind in return/raise/fallthrough
    """

    def __init__(
        self,
        fn: ast.AST,
        *,
        must: bool = True,
        resolver: Optional[Resolver] = None,
        events: Optional[Callable[[ast.AST], Iterable[str]]] = None,
        kills: Optional[Callable[[ast.AST], Iterable[str]]] = None,
        track_guards: bool = True,
        init: Iterable[tuple] = (),
        body: Optional[List[ast.stmt]] = None,
    ):
        self.fn = fn
        self.must = must
        self.resolver = resolver or Resolver(fn)
        self.events = events
        self.kills = kills  # may-mode: event names removed by a node
        self.track_guards = track_guards and must
        self.init: State = frozenset(init)
        self.body = body if body is not None else fn.body  # type: ignore[attr-defined]
        self.before: Dict[int, State] = {}
        self.after: Dict[int, State] = {}
        self.exits: List[Tuple[str, ast.AST, State]] = []
        self.parents: Dict[int, ast.AST] = {}
        for p in ast.walk(fn):
            for c in ast.iter_child_nodes(p):
                self.parents[id(c)] = p

    # -- lattice
    def join(self, states: Iterable[Optional[State]]) -> Optional[State]:
        ss = [s for s in states if s is not None]
        if not ss:
            return None
        acc = ss[0]
        for s in ss[1:]:
            acc = (acc & s) if self.must else (acc | s)
        return acc

    def _record(self, node: ast.AST, st: State):
        prev = self.before.get(id(node))
        self.before[id(node)] = st if prev is None else self.join([prev, st])  # loops re-visit

    # -- transfer
    def _apply_events(self, node: ast.AST, st: State) -> State:
        if self.events is not None:
            evs = list(self.events(node))
            if evs:
                st = st | frozenset(("ev", e) for e in evs)
        if self.kills is not None:
            ks = set(self.kills(node))
            if ks:
                st = frozenset(f for f in st if not (f[0] == "ev" and f[1] in ks))
        return st

    def _kill_loc(self, st: State, loc: str) -> State:
        if not self.track_guards:
            return st
        out = []
        for f in st:
            if f[0] == "g":
                mentions = f[3]
                if any(m == loc or m.startswith(loc + ".") or m.startswith(loc + "[") for m in mentions):
                    continue
            out.append(f)
        return frozenset(out)

    def _assign_targets(self, t: ast.AST) -> List[str]:
        if isinstance(t, (ast.Tuple, ast.List)):
            out: List[str] = []
            for e in t.elts:
                out += self._assign_targets(e.value if isinstance(e, ast.Starred) else e)
            return out
        l = loc_text(self.resolver.resolve(t)) if not isinstance(t, ast.Name) else t.id
        return [l] if l else []

    def _guard_fact(self, key: str, pol: bool, atom_ast: ast.AST, origin: str = "b") -> tuple:
        mentions = set()
        for n in ast.walk(atom_ast):
            if isinstance(n, (ast.Name, ast.Attribute, ast.Subscript)):
                lt = loc_text(n)
                if lt:
                    mentions.add(lt)
        return ("g", key, pol, frozenset(mentions), origin)

    def transfer_simple(self, stmt: ast.stmt, st: State) -> State:
        st = self._apply_events(stmt, st)
        if not self.track_guards:
            return st
        targets: List[ast.AST] = []
        value: Optional[ast.AST] = None
        if isinstance(stmt, ast.Assign):
            targets, value = stmt.targets, stmt.value
        elif isinstance(stmt, ast.AnnAssign) and stmt.value is not None:
            targets, value = [stmt.target], stmt.value
        elif isinstance(stmt, ast.AugAssign):
            targets = [stmt.target]
        elif isinstance(stmt, ast.Delete):
            targets = stmt.targets
        elif isinstance(stmt, ast.Expr) and isinstance(stmt.value, ast.Call) and isinstance(stmt.value.func, ast.Attribute) \
                and stmt.value.func.attr in MUTATORS:
            l = loc_text(self.resolver.resolve(stmt.value.func.value))
            if l:
                st = self._kill_loc(st, l)
        elif isinstance(stmt, (ast.Import, ast.ImportFrom)):
            for al in stmt.names:
                st = self._kill_loc(st, (al.asname or al.name).split(".")[0])
        for t in targets:
            for l in self._assign_targets(t):
                st = self._kill_loc(st, l)
        # learn flags: x = True/False, x = y, x = not y (y known)
        if value is not None and len(targets) >= 1:
            learned: Optional[bool] = None
            if isinstance(value, ast.Constant) and isinstance(value.value, bool):
                learned = value.value
            else:
                v, inv = value, False
                while isinstance(v, ast.UnaryOp) and isinstance(v.op, ast.Not):
                    v, inv = v.operand, not inv
                if _is_pure_path(v) or isinstance(v, ast.Compare):
                    key, pol = canon_atom(self.resolver, v, True)
                    for f in st:
                        if f[0] == "g" and f[1] == key:
                            learned = (f[2] == pol) != inv
                            break
            if learned is not None:
                for t in targets:
                    if isinstance(t, (ast.Name, ast.Attribute)):
                        ra = self.resolver.resolve(t) if not isinstance(t, ast.Name) else t
                        key = ast.unparse(ra)
                        st = st | {self._guard_fact(key, learned, ra, "a")}
        return st

    def refine(self, test: ast.AST, pol: bool, st: State) -> Optional[State]:
        if isinstance(test, ast.Constant):
            if bool(test.value) != pol:
                return None
            return st
        if not self.track_guards:
            return st
        add = []
        atoms = decompose(test, pol)
        inner, ipol = test, pol
        while isinstance(inner, ast.UnaryOp) and isinstance(inner.op, ast.Not):
            inner, ipol = inner.operand, not ipol
        if isinstance(inner, ast.BoolOp) and not atoms:
            # `a and b` is false / `a or b` is true: no atom follows, keep the compound test itself as a fact
            ckey, cpol = canon_atom(self.resolver, inner, ipol)
            add.append(self._guard_fact(ckey, cpol, self.resolver.resolve(inner)))
        for atom, p in atoms:
            key, p2 = canon_atom(self.resolver, atom, p)
            # contradiction with a known fact -> infeasible
            for f in st:
                if f[0] == "g" and f[1] == key and f[2] != p2:
                    return None
            add.append(self._guard_fact(key, p2, self.resolver.resolve(atom)))
        return st | frozenset(add)

    # -- statements
    def run(self) -> "Flow":
        out = self.block(self.body, self.init)
        for node, s in out.ret:
            self.exits.append(("return", node, s))
        for node, s in out.exc:
            self.exits.append(("raise", node, s))
        if out.normal is not None:
            self.exits.append(("fallthrough", self.fn, out.normal))
        # when only a loop body is analysed (body=...), continue/break leave the analysed region
        for s in out.cont:
            self.exits.append(("continue", self.fn, s))
        for s in out.brk:
            self.exits.append(("break", self.fn, s))
        return self

    def block(self, stmts: List[ast.stmt], st: Optional[State]) -> Out:
        out = Out(st)
        for s in stmts:
            if out.normal is None:
                break
            o = self.stmt(s, out.normal)
            out.normal = o.normal
            out.absorb(o)
        return out

    def stmt(self, s: ast.stmt, st: State) -> Out:
        self._record(s, st)
        if isinstance(s, ast.If):
            self._record(s.test, st)
            st0 = self._apply_events(s.test, st)
            t = self.refine(s.test, True, st0)
            f = self.refine(s.test, False, st0)
            ob = self.block(s.body, t) if t is not None else Out(None)
            oe = self.block(s.orelse, f) if f is not None else Out(None)
            out = Out(self.join([ob.normal, oe.normal]))
            out.absorb(ob)
            out.absorb(oe)
            return out
        if isinstance(s, (ast.For, ast.AsyncFor, ast.While)):
            return self.loop(s, st)
        if isinstance(s, ast.Return):
            st2 = self.transfer_simple(s, st)
            self.after[id(s)] = st2
            o = Out(None)
            o.ret.append((s, st2))
            return o
        if isinstance(s, ast.Raise):
            st2 = self.transfer_simple(s, st)
            self.after[id(s)] = st2
            o = Out(None)
            o.exc.append((s, st2))
            return o
        if isinstance(s, ast.Break):
            o = Out(None)
            o.brk.append(st)
            return o
        if isinstance(s, ast.Continue):
            o = Out(None)
            o.cont.append(st)
            return o
        if isinstance(s, (ast.With, ast.AsyncWith)):
            st1 = st
            for it in s.items:
                st1 = self._apply_events(it.context_expr, st1)
                if it.optional_vars is not None and self.track_guards:
                    for l in self._assign_targets(it.optional_vars):
                        st1 = self._kill_loc(st1, l)
            return self.block(s.body, st1)
        if isinstance(s, ast.Try) or s.__class__.__name__ == "TryStar":
            return self.try_(s, st)
        if isinstance(s, ast.Match):
            raise AnalysisError(f"match statement at line {s.lineno} not supported")
        if isinstance(s, (ast.FunctionDef, ast.AsyncFunctionDef, ast.ClassDef)):
            st2 = self._kill_loc(st, s.name)
            self.after[id(s)] = st2
            return Out(st2)
        if isinstance(s, ast.Assert):
            st2 = self._apply_events(s, st)
            r = self.refine(s.test, True, st2)
            self.after[id(s)] = r if r is not None else st2
            return Out(r)
        # simple statements
        st2 = self.transfer_simple(s, st)
        self.after[id(s)] = st2
        return Out(st2)

    def loop(self, s, st: State) -> Out:
        is_for = not isinstance(s, ast.While)
        head_in: Optional[State] = st
        result: Optional[Out] = None
        exit_state: Optional[State] = None
        for _ in range(12):
            assert head_in is not None
            if is_for:
                self._record(s.iter, head_in)
                h = self._apply_events(s.iter, head_in)
                body_in: Optional[State] = h
                if self.track_guards:
                    for l in self._assign_targets(s.target):
                        body_in = self._kill_loc(body_in, l)  # type: ignore[arg-type]
                exit_state = h
            else:
                self._record(s.test, head_in)
                h = self._apply_events(s.test, head_in)
                body_in = self.refine(s.test, True, h)
                exit_state = self.refine(s.test, False, h)
            ob = self.block(s.body, body_in) if body_in is not None else Out(None)
            new_head = self.join([st, ob.normal] + ob.cont)
            result = ob
            if new_head == head_in:
                break
            head_in = new_head
        else:
            raise AnalysisError(f"loop at line {s.lineno} did not reach a fixpoint")
        assert result is not None
        oe = self.block(s.orelse, exit_state) if exit_state is not None else Out(None)
        out = Out(self.join([oe.normal] + result.brk))
        out.ret += result.ret + oe.ret
        out.exc += result.exc + oe.exc
        out.brk += oe.brk
        out.cont += oe.cont
        return out

    def _inner_states(self, stmts: List[ast.stmt]) -> List[State]:
        res = []
        for s in stmts:
            for n in ast.walk(s):
                if isinstance(n, ast.stmt):
                    b = self.before.get(id(n))
                    if b is not None:
                        res.append(b)
                    a = self.after.get(id(n))
                    if a is not None:
                        res.append(a)
        return res

    def try_(self, s, st: State) -> Out:
        ob = self.block(s.body, st)
        # any statement of the body may raise: handler entry = join of every state seen inside
        inner = [st] + self._inner_states(s.body) + [x for _, x in ob.exc]
        if ob.normal is not None:
            inner.append(ob.normal)
        h_in = self.join(inner)
        outs: List[Out] = []
        caught_all = False
        for h in s.handlers:
            hs = h_in
            if h.name and self.track_guards and hs is not None:
                hs = self._kill_loc(hs, h.name)
            self._record(h, hs)  # type: ignore[arg-type]
            outs.append(self.block(h.body, hs))
            if h.type is None or (isinstance(h.type, ast.Name) and h.type.id in ("Exception", "BaseException")):
                caught_all = True
        oe = self.block(s.orelse, ob.normal) if ob.normal is not None else Out(None)
        out = Out(self.join([oe.normal] + [o.normal for o in outs]))
        out.brk = ob.brk + oe.brk
        out.cont = ob.cont + oe.cont
        out.ret = ob.ret + oe.ret
        # explicit raises in the body: conservatively assume they may be caught *or* propagate unless a
        # catch-all handler exists
        out.exc = ([] if (caught_all and s.handlers) else list(ob.exc)) + oe.exc
        for o in outs:
            out.absorb(o)
        if s.finalbody:
            fin = Out(None)

            def thru(state: Optional[State]) -> Optional[State]:
                if state is None:
                    return None
                of = self.block(s.finalbody, state)
                fin.absorb(of)
                return of.normal

            out.normal = thru(out.normal)
            out.brk = [x for x in (thru(b) for b in out.brk) if x is not None]
            out.cont = [x for x in (thru(b) for b in out.cont) if x is not None]
            out.ret = [(n, x) for n, x in ((n, thru(b)) for n, b in out.ret) if x is not None]
            out.exc = [(n, x) for n, x in ((n, thru(b)) for n, b in out.exc) if x is not None]
            # implicit exceptions also run the finally block
            thru(h_in)
            out.absorb(fin)
        return out

    # -- queries
    def state_at(self, node: ast.AST) -> Optional[State]:
        """Must/may state that holds when `node` (statement or sub-expression) is evaluated, including
        short-circuit guards inside the enclosing statement. None = unreachable / not in this function."""
        chain = [node]
        n = node
        while id(n) not in self.before:
            p = self.parents.get(id(n))
            if p is None:
                return None
            if isinstance(p, (ast.Lambda, ast.FunctionDef, ast.AsyncFunctionDef)) and p is not self.fn:
                return frozenset()  # deferred execution: nothing is known
            chain.append(p)
            n = p
        st: Optional[State] = self.before[id(n)]
        # walk down from n to node collecting intra-expression guards
        chain.reverse()
        for parent, child in zip(chain, chain[1:]):
            if st is None:
                return None
            if isinstance(parent, ast.BoolOp):
                idx = next(i for i, v in enumerate(parent.values) if v is child)
                for v in parent.values[:idx]:
                    st = self.refine(v, isinstance(parent.op, ast.And), st)
                    if st is None:
                        return None
            elif isinstance(parent, ast.IfExp):
                if child is parent.body:
                    st = self.refine(parent.test, True, st)
                elif child is parent.orelse:
                    st = self.refine(parent.test, False, st)
            elif isinstance(parent, (ast.ListComp, ast.SetComp, ast.GeneratorExp, ast.DictComp)):
                elts = [parent.elt] if not isinstance(parent, ast.DictComp) else [parent.key, parent.value]
                if any(child is e for e in elts):
                    for g in parent.generators:
                        for cond in g.ifs:
                            st = self.refine(cond, True, st)
                            if st is None:
                                return None
            elif isinstance(parent, ast.If) and child is not parent.test:
                pass
        return st

    def guards_at(self, node: ast.AST, learned: bool = False) -> Optional[Set[Tuple[str, bool]]]:
        """Branch-derived guard facts at node; learned=True also includes flags learned from assignments
        (x = True / x = not y)."""
        st = self.state_at(node)
        if st is None:
            return None
        return {(f[1], f[2]) for f in st if f[0] == "g" and (learned or f[4] == "b")}

    def events_at(self, node: ast.AST) -> Optional[Set[str]]:
        st = self.state_at(node)
        if st is None:
            return None
        return {f[1] for f in st if f[0] == "ev"}


# --------------------------------------------------------------------------- fact matchers
def has_truthy(guards: Set[Tuple[str, bool]], path: str) -> bool:
    """truthy(path) is implied by the guard set (a few equivalent spellings)."""
    forms = {
        (path, True), (f"{path} != 0", True), (f"{path} == 0", False), (f"{path} == 2", True),
        (f"{path} > 0", True), (f"{path} is None", False) if False else (path, True),
        (f"not {path}", False), (f"{path} == 0", False),
    }
    return any(f in guards for f in forms)


def has_falsy(guards: Set[Tuple[str, bool]], path: str) -> bool:
    forms = {(path, False), (f"{path} == 0", True), (f"{path} != 0", False), (f"{path} is None", True)}
    return any(f in guards for f in forms)


def has_notnone(guards: Set[Tuple[str, bool]], path: str) -> bool:
    return (f"{path} is None", False) in guards or (path, True) in guards


def has_fact(guards: Set[Tuple[str, bool]], key: str, pol: bool) -> bool:
    return (key, pol) in guards
