"""Findings, instances, known-findings matching, evidence and exit codes."""
from __future__ import annotations

import hashlib
import json
import os
import time
from typing import Any, Dict, List, Optional

VERIF = os.path.dirname(os.path.dirname(os.path.abspath(__file__)))


class Instance:
    __slots__ = ("rule", "construct", "verdict", "where", "facts", "nontrivial")

    def __init__(self, rule, construct, verdict, where="", facts=None, nontrivial=True):
        self.rule = rule
        self.construct = construct
        self.verdict = verdict  # pass | violation | known | exempt
        self.where = where
        self.facts = facts or {}
        self.nontrivial = nontrivial

    def as_dict(self):
        return {"rule": self.rule, "construct": self.construct, "verdict": self.verdict, "where": self.where,
                "facts": self.facts}


class Finding:
    def __init__(self, prop, rule, construct, message, where, facts=None):
        self.prop = prop
        self.rule = rule
        self.construct = construct  # stable key: qualified function + semantic label, no line numbers
        self.message = message
        self.where = where  # file:line, for humans
        self.facts = facts or {}

    @property
    def key(self):
        return (self.prop, self.rule, self.construct)

    def replay_name(self):
        h = hashlib.sha256(f"{self.rule}|{self.construct}".encode()).hexdigest()[:10]
        return f"{self.prop}-{h}.json"


class Ctx:
    """Per-run context handed to every rule."""

    def __init__(self, repo, prop: str, tier: str, only: Optional[Dict[str, str]] = None):
        self.repo = repo
        self.prop = prop
        self.tier = tier
        self.depth = 3 if tier == "quick" else 5
        self.instances: List[Instance] = []
        self.findings: List[Finding] = []
        self.rules_run: List[Dict[str, Any]] = []
        self.only = only  # replay: {"rule":..., "construct":...}
        self._rule: Optional[str] = None
        self.notes: List[str] = []
        self.functions_analysed: set = set()
        self.exemptions: List[Dict[str, str]] = []

    # -- reporting API for rules
    def ok(self, construct: str, where: str = "", nontrivial: bool = True, **facts):
        self.instances.append(Instance(self._rule, construct, "pass", where, facts, nontrivial))

    def exempt(self, construct: str, reason: str, where: str = ""):
        self.instances.append(Instance(self._rule, construct, "exempt", where, {"reason": reason}))
        self.exemptions.append({"rule": self._rule, "construct": construct, "reason": reason})

    def bad(self, construct: str, message: str, where: str = "", **facts):
        self.instances.append(Instance(self._rule, construct, "violation", where, dict(facts, message=message)))
        self.findings.append(Finding(self.prop, self._rule, construct, message, where, facts))

    def note(self, msg: str):
        self.notes.append(msg)

    def analysed(self, *quals: str):
        self.functions_analysed.update(quals)


def load_known(path: Optional[str] = None) -> Dict[str, Any]:
    path = path or os.path.join(VERIF, "known_findings.json")
    if not os.path.exists(path):
        return {"findings": [], "fixed": []}
    with open(path) as f:
        return json.load(f)


def conclude(ctx: Ctx, t0: float, analysis_errors: List[str], selftest: Optional[Dict[str, Any]] = None,
             level_text: str = "", write_evidence: bool = True, known_path: Optional[str] = None) -> int:
    """Match findings with known findings, print the verdict lines, write evidence, return exit code."""
    known = load_known(known_path)
    kf = {(k["property"], k["rule"], k["construct"]): k for k in known.get("findings", [])}
    violations: List[Finding] = []
    matched: List[Dict[str, Any]] = []
    for f in ctx.findings:
        k = kf.get(f.key)
        if k is not None:
            matched.append(k)
            print(f"KNOWN-FINDING: property={f.prop} {k['what_fails']} [{f.rule} {f.construct} at {f.where}]")
            for inst in ctx.instances:
                if inst.rule == f.rule and inst.construct == f.construct and inst.verdict == "violation":
                    inst.verdict = "known"
        else:
            violations.append(f)
    for f in violations:
        os.makedirs(os.path.join(VERIF, "replays"), exist_ok=True)
        rp = os.path.join(VERIF, "replays", f.replay_name())
        with open(rp, "w") as fh:
            json.dump({"property": f.prop, "rule": f.rule, "construct": f.construct, "where": f.where,
                       "message": f.message, "facts": f.facts, "repo_root": ctx.repo.root}, fh, indent=1, default=str)
        print(f"  {f.rule} {f.construct}\n    at {f.where}: {f.message}")
        print(f"VIOLATION property={f.prop} replay={rp}")
    for e in analysis_errors:
        print(f"ANALYSIS-ERROR property={ctx.prop} {e}")

    wall = time.time() - t0
    distinct = {(i.rule, i.construct) for i in ctx.instances if i.nontrivial}
    per_rule: Dict[str, Dict[str, int]] = {}
    for i in ctx.instances:
        d = per_rule.setdefault(i.rule, {"instances": 0, "pass": 0, "violation": 0, "known": 0, "exempt": 0})
        d["instances"] += 1
        d[i.verdict] += 1
    samples = [i.as_dict() for i in ctx.instances[:6]] + [i.as_dict() for i in ctx.instances if i.verdict != "pass"][:6]
    ev = {
        "property_id": ctx.prop,
        "tier": ctx.tier,
        "seed": int(os.environ.get("VERIF_SEED", "0") or 0),
        "level": "other",
        "coverage": {
            "explanation": level_text
            or "Static analysis (ast) of /repo's working tree: rule instances enumerated from the source and decided "
            "from derived facts (guards, dominance, access paths, call graph, tables).",
            "evaluations": len(ctx.instances),
            "distinct_nontrivial": len(distinct),
            "rule": "one evaluation = one rule instance (a code site / table row / path obligation) derived from the "
            "source on this run; distinct = distinct (rule, construct) keys; non-trivial = the verdict needed at "
            "least one derived fact (guard set, dominance, read-set, table comparison), not mere existence",
            "samples": samples,
            "exhaustive": not analysis_errors,
            "rules": ctx.rules_run,
            "per_rule": per_rule,
            "functions_analysed": sorted(ctx.functions_analysed),
            "modules_consulted": ctx.repo.consulted,
            "inlining_depth": ctx.depth,
            "exemptions": ctx.exemptions,
            "known_findings_matched": [k["construct"] for k in matched],
            "analysis_errors": analysis_errors,
            "notes": ctx.notes,
            "repo_root": ctx.repo.root,
        },
        "assumptions": [
            "The rules decide necessary structural conditions of the property (see DESIGN.md section 3), not the "
            "behaviour itself.",
            "Name-based call resolution with the receiver table of DESIGN.md 2.6; dynamic dispatch outside it is "
            "not followed.",
        ],
        "wall_s": round(wall, 3),
        "violations": len(violations),
    }
    if selftest is not None:
        ev["coverage"]["selftest"] = selftest
    if write_evidence:
        os.makedirs(os.path.join(VERIF, "evidence"), exist_ok=True)
        with open(os.path.join(VERIF, "evidence", f"{ctx.prop}.json"), "w") as fh:
            json.dump(ev, fh, indent=1, default=str)
    n_inst = len(ctx.instances)
    print(f"[{ctx.prop}] tier={ctx.tier} rules={len(ctx.rules_run)} instances={n_inst} distinct={len(distinct)} "
          f"violations={len(violations)} known={len(matched)} errors={len(analysis_errors)} wall={wall:.2f}s")
    if violations:
        return 1  # a positively established violation outranks an unrelated analysis error
    return 2 if analysis_errors else 0
