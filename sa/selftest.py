"""Checker self-test (thorough tier): the rules of a property must fire on scratch copies in which one instance is
broken (kept seeded changes, reverted `fix:` commits) and stay silent on behaviour-preserving twins (whole-tree
re-formatting through ast.unparse, shifted line numbers, renamed locals). Neither outcome changes the exit code of the
check, which reflects only the verdict on the analysed tree; misses are printed as SELFTEST-MISS / SELFTEST-FALSE-ALARM
and recorded in the evidence."""
from __future__ import annotations

import ast
import json
import os
import re
import shutil
import subprocess
import tempfile
from concurrent.futures import ThreadPoolExecutor
from typing import Any, Dict, List, Optional, Tuple

VERIF = os.path.dirname(os.path.dirname(os.path.abspath(__file__)))
COPY = ["esp_kconfiglib", "kconfgen", "kconfserver", "esp_menuconfig", "kconfcheck", "esp_idf_kconfig", "kconfiglib", "menuconfig", "docs"]

# behaviour-preserving local renames (function qualified name -> {old: new})
RENAMES = {
    "esp_kconfiglib/core.py": {"Symbol.str_value": {"vis": "visib", "use_defaults": "fall_back"}, "Symbol.bool_value": {"vis": "visib"},
                               "Kconfig._build_dep": {"depend_on": "add_dep"}, "Kconfig.sync_deps": {"val": "new_val"}},
    "kconfserver/core.py": {"handle_set": {"set_pass": "this_pass"}, "run_server": {"before_visible": "vis_before", "after_visible": "vis_after"}},
    "esp_menuconfig/model.py": {"MenuConfigState.toggle_show_all": {"new_shown": "fresh_rows"}, "MenuConfigState.leave_menu": {"parent": "up"}},
    "kconfcheck/check_deprecated_options.py": {"check_deprecated_options": {"effective_deprecated": "effective"},
                                               "_build_local_deprecated": {"nearest": "owner"}},
    "esp_idf_kconfig/gen_kconfig_doc.py": {"_minimize_expr": {"new_expr1": "lhs", "new_expr2": "rhs"}},
    "kconfgen/core.py": {"update_if_changed": {"source_contents": "src_text", "dest_contents": "dst_text"}},
}


def _copy_tree(src_root: str) -> str:
    d = tempfile.mkdtemp(prefix="sa-selftest-")
    for pkg in COPY:
        s = os.path.join(src_root, pkg)
        if os.path.isdir(s):
            shutil.copytree(s, os.path.join(d, pkg), ignore=shutil.ignore_patterns("__pycache__", "*.pyc"))
    return d


def _py_files(root: str) -> List[str]:
    out = []
    for pkg in COPY[:-1]:
        for dp, dn, fn in os.walk(os.path.join(root, pkg)):
            out += [os.path.join(dp, f) for f in fn if f.endswith(".py")]
    return out


def twin_reformat(root: str) -> None:
    for p in _py_files(root):
        src = open(p, encoding="utf-8").read()
        open(p, "w", encoding="utf-8").write(ast.unparse(ast.parse(src)) + "\n")


def twin_shift(root: str) -> None:
    for p in _py_files(root):
        src = open(p, encoding="utf-8").read()
        lines = src.split("\n")
        i = 0
        while i < len(lines) and (lines[i].startswith("#") or not lines[i].strip()):
            i += 1
        lines[i:i] = ["# selftest: shifted"] * 11
        open(p, "w", encoding="utf-8").write("\n".join(lines))


class _Renamer(ast.NodeTransformer):
    def __init__(self, mapping):
        self.m = mapping

    def visit_Name(self, n):
        if n.id in self.m:
            n.id = self.m[n.id]
        return n

    def visit_arg(self, n):
        if n.arg in self.m:
            n.arg = self.m[n.arg]
        return n


def twin_rename(root: str) -> None:
    for rel, table in RENAMES.items():
        p = os.path.join(root, rel)
        if not os.path.exists(p):
            continue
        tree = ast.parse(open(p, encoding="utf-8").read())

        def visit(body, prefix):
            for n in body:
                if isinstance(n, ast.ClassDef):
                    visit(n.body, prefix + n.name + ".")
                elif isinstance(n, (ast.FunctionDef, ast.AsyncFunctionDef)):
                    q = prefix + n.name
                    if q in table:
                        existing = {x.id for x in ast.walk(n) if isinstance(x, ast.Name)}
                        mp = {k: v for k, v in table[q].items() if v not in existing}
                        _Renamer(mp).visit(n)

        visit(tree.body, "")
        open(p, "w", encoding="utf-8").write(ast.unparse(tree) + "\n")


def twin_rename_all(root: str) -> None:
    """every local of every function gets a new name (suffix _r)"""
    from .localsig import locals_of, top_functions, _Rename
    for p in _py_files(root):
        tree = ast.parse(open(p, encoding="utf-8").read())
        for q, fn in top_functions(tree):
            names = locals_of(fn)
            _Rename({n: n + "_r" for n in names}).visit(fn)
        open(p, "w", encoding="utf-8").write(ast.unparse(tree) + "\n")


class _PassInserter(ast.NodeTransformer):
    """inserts a no-op statement after every simple statement inside function bodies (a stand-in for added logging)"""

    def _do(self, body):
        out = []
        for st in body:
            out.append(st)
            if isinstance(st, (ast.Assign, ast.AugAssign, ast.AnnAssign, ast.Expr)) and not (isinstance(st, ast.Expr) and isinstance(st.value, ast.Constant)):
                out.append(ast.Pass())
        return out

    def generic_visit(self, node):
        super().generic_visit(node)
        if self.depth > 0:
            for fld in ("body", "orelse", "finalbody"):
                b = getattr(node, fld, None)
                if isinstance(b, list) and b and isinstance(b[0], ast.stmt):
                    setattr(node, fld, self._do(b))
        return node

    depth = 0

    def visit_FunctionDef(self, node):
        self.depth += 1
        self.generic_visit(node)
        self.depth -= 1
        return node

    visit_AsyncFunctionDef = visit_FunctionDef


def twin_noop(root: str) -> None:
    for p in _py_files(root):
        tree = ast.parse(open(p, encoding="utf-8").read())
        tree = _PassInserter().visit(tree)
        ast.fix_missing_locations(tree)
        open(p, "w", encoding="utf-8").write(ast.unparse(tree) + "\n")


def _lazy(name):
    def run(root):
        from . import twins
        getattr(twins, name)(root)
    return run


TWINS = [("reformat (ast.unparse of every module: quotes, layout, comments dropped, all line numbers move)", twin_reformat),
         ("shift (11 comment lines inserted at the top of every module)", twin_shift),
         ("rename (locals of analysed functions renamed)", twin_rename),
         ("rename-all (every local of every function renamed)", twin_rename_all),
         ("no-op statements (a `pass` after every simple statement of every function)", twin_noop),
         ("reordered definitions (methods of every class in reverse order)", _lazy("reorder_defs")),
         ("logging (a stdlib logging call after every simple statement of every function)", _lazy("logging_twin")),
         ("annotated locals (first assignment of every local becomes `x: object = value`)", _lazy("annotate")),
         ("explaining variables (`if <expr>:` becomes `c = <expr>; if c:`)", _lazy("explain_var")),
         ("else after return flattened (`if c: return .. else: B` becomes `if c: return ..; B`, cascading through elif chains)", _lazy("else_flatten")),
         ("else after return introduced (statements after a terminating `if` move into its else)", _lazy("else_unflatten"))]


def _run_check(prop: str, root: str) -> Tuple[int, str]:
    r = subprocess.run([os.path.join(VERIF, "check"), prop, "--repo", root, "--no-evidence", "--tier", "quick", "--no-selftest"],
                       capture_output=True, text=True, cwd=VERIF)
    return r.returncode, r.stdout


def _fix_commits_for(prop: str) -> List[Tuple[str, str]]:
    kf = os.path.join(VERIF, "known_findings.json")
    out = []
    if os.path.exists(kf):
        for e in json.load(open(kf)).get("fixed", []):
            m = re.match(r"fixed: property=(\w+) ([0-9a-f]{7,40}) (.*)", e)
            if m and m.group(1) == prop:
                out.append((m.group(2), m.group(3)))
    return out


def run_for(prop: str, repo_root: str = "/repo") -> Dict[str, Any]:
    seeds = sorted(d for d in os.listdir(os.path.join(VERIF, "seeded")) if d.startswith(prop + "-") and
                   os.path.exists(os.path.join(VERIF, "seeded", d, "patch.diff"))) if os.path.isdir(os.path.join(VERIF, "seeded")) else []
    jobs: List[Tuple[str, str, Any]] = []
    for s in seeds:
        jobs.append(("mutant", f"seeded/{s}", os.path.join(VERIF, "seeded", s, "patch.diff")))
    for h, what in _fix_commits_for(prop):
        jobs.append(("revert", f"revert {h}: {what[:70]}", h))
    for label, fn in TWINS:
        jobs.append(("twin", label, fn))
    # behaviour-preserving refactorings written by sub-agents (extract helper, guard clauses, hoisted locals, dispatch
    # tables ...; /verif/benign/<id>/patch.diff, confirmed by tools/benign_confirm.py): this check must stay silent on all
    bdir = os.path.join(VERIF, "benign")
    if os.path.isdir(bdir):
        for b in sorted(os.listdir(bdir)):
            pth = os.path.join(bdir, b, "patch.diff")
            if os.path.exists(pth):
                jobs.append(("benign", f"benign/{b}", pth))

    def one(job):
        kind, label, arg = job
        d = _copy_tree(repo_root)
        try:
            if kind in ("mutant", "benign"):
                r = subprocess.run(["git", "apply", "--unsafe-paths", arg], cwd=d, capture_output=True, text=True)
                if r.returncode:
                    return kind, label, "skipped", "patch does not apply to the current tree"
            elif kind == "revert":
                p = subprocess.run(["git", "-C", repo_root, "show", "--format=", arg], capture_output=True, text=True)
                if p.returncode or not p.stdout.strip():
                    return kind, label, "skipped", "commit not available"
                r = subprocess.run(["git", "apply", "-R", "--unsafe-paths", "-"], cwd=d, input=p.stdout, capture_output=True, text=True)
                if r.returncode:
                    return kind, label, "skipped", "reverse patch does not apply to the current tree"
            else:
                arg(d)
            rc, out = _run_check(prop, d)
            fired = sorted(set(re.findall(r"^  (R\d\d\.\w+) ", out, re.M)))
            if kind in ("mutant", "revert"):
                return kind, label, ("detected" if rc == 1 else "MISS" if rc == 0 else "analysis-error"), ",".join(fired) or out.strip().splitlines()[-1][:120]
            return kind, label, ("silent" if rc == 0 else "FALSE-ALARM" if rc == 1 else "analysis-error"), ",".join(fired) or ""
        finally:
            shutil.rmtree(d, ignore_errors=True)

    with ThreadPoolExecutor(min(16, max(1, len(jobs)))) as ex:
        results = list(ex.map(one, jobs))
    lines = []
    summary: Dict[str, Any] = {"variants": len(results), "results": [{"kind": k, "variant": l, "outcome": o, "detail": d} for k, l, o, d in results]}
    for k, l, o, d in results:
        if o == "MISS":
            lines.append(f"SELFTEST-MISS property={prop} {l}")
        elif o == "FALSE-ALARM":
            lines.append(f"SELFTEST-FALSE-ALARM property={prop} twin={l} rules={d}")
        elif o == "analysis-error":
            lines.append(f"SELFTEST-ANALYSIS-ERROR property={prop} {l}: {d}")
    cnt: Dict[str, int] = {}
    for _, _, o, _ in results:
        cnt[o] = cnt.get(o, 0) + 1
    summary["counts"] = cnt
    lines.append(f"[{prop}] selftest: {cnt}")
    summary["lines"] = lines
    return summary
