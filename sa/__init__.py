"""Static-analysis engine for esp-idf-kconfig properties C01-C20 (stdlib `ast` only)."""
