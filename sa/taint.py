"""Forward taint with JSON type refinement for one module (DESIGN 2.7).

A tainted value carries the set of JSON types it may have ({none,bool,int,float,str,list,dict}) and the type set of its
elements / values. Guards that dominate a site (isinstance, is None, all(isinstance(..) for ..)) refine it. Sinks are
operations whose domain is narrower than the operand's type set; a sink is discharged by an enclosing `try` whose
handlers cover the exception class the operation raises."""
from __future__ import annotations

import ast
from typing import Dict, FrozenSet, List, Optional, Set, Tuple

from .flow import Flow, Resolver
from .repo import Func, Repo

ANY: FrozenSet[str] = frozenset({"none", "bool", "int", "float", "str", "list", "dict"})
HASHABLE = frozenset({"none", "bool", "int", "float", "str"})
PYTYPE = {"int": {"int", "bool"}, "str": {"str"}, "dict": {"dict"}, "list": {"list"}, "float": {"float"}, "bool": {"bool"},
          "tuple": set(), "set": set(), "type(None)": {"none"}}


class D:
    """descriptor of a possibly tainted value"""
    __slots__ = ("types", "elem", "origin")

    def __init__(self, types: FrozenSet[str], elem: Optional["D"] = None, origin: str = ""):
        self.types = frozenset(types)
        self.elem = elem
        self.origin = origin

    def element(self) -> "D":
        # element of list / value of dict / char of str
        out: Set[str] = set()
        if "str" in self.types:
            out.add("str")
        if self.types & {"list", "dict"}:
            return D((self.elem.types if self.elem else ANY) | out, self.elem.elem if self.elem else None, self.origin + "[*]")
        return D(out or ANY, None, self.origin + "[*]")

    def iter_item(self) -> "D":
        # what `for x in v` yields: dict -> keys (str), list -> elements, str -> chars
        out: Set[str] = set()
        if "dict" in self.types or "str" in self.types:
            out.add("str")
        if "list" in self.types:
            out |= (self.elem.types if self.elem else ANY)
        return D(out or ANY, self.elem.elem if (self.elem and "list" in self.types) else None, self.origin + "<iter>")

    def __repr__(self):
        return f"D({sorted(self.types)}, elem={sorted(self.elem.types) if self.elem else 'any'}, {self.origin})"


class Sink:
    def __init__(self, func: Func, node: ast.AST, op: str, operand: str, desc: D, allowed: Set[str], exc: str, discharged: Optional[str]):
        self.func, self.node, self.op, self.operand, self.desc, self.allowed, self.exc, self.discharged = \
            func, node, op, operand, desc, allowed, exc, discharged

    @property
    def bad_types(self) -> List[str]:
        return sorted(self.desc.types - self.allowed)


SANITISERS = {"str", "repr", "bool", "json.dumps", "escape"}


class TaintAnalysis:
    def __init__(self, repo: Repo, modname: str):
        self.repo = repo
        self.modname = modname
        self.sinks: List[Sink] = []
        self.done: Set[Tuple[str, Tuple]] = set()
        self.functions: Set[str] = set()

    # ------------------------------------------------------------------ per function
    def run(self, func: Func, params: Dict[str, D], init_guards: Optional[Set[Tuple[str, bool]]] = None):
        key = (func.qual, tuple(sorted((k, tuple(sorted(v.types))) for k, v in params.items())), tuple(sorted(init_guards or ())))
        if key in self.done:
            return
        self.done.add(key)
        self.functions.add(func.qual)
        fa = _FuncTaint(self, func, params, init_guards)
        fa.analyse()


class _FuncTaint:
    def __init__(self, ta: TaintAnalysis, func: Func, params: Dict[str, D], init_guards: Optional[Set[Tuple[str, bool]]] = None):
        self.ta = ta
        self.init_guards = set(init_guards or ())
        self.func = func
        self.repo = ta.repo
        self.res = Resolver(func.node)
        self.params: Dict[str, D] = dict(params)
        self.own = [n for n in ast.walk(func.node) if self.repo.enclosing_func(n) is func or n is func.node]
        # name -> assignments (Assign nodes with a plain Name target)
        self.assigns: Dict[str, List[ast.Assign]] = {}
        for n in self.own:
            if isinstance(n, ast.Assign):
                for t in n.targets:
                    if isinstance(t, ast.Name):
                        self.assigns.setdefault(t.id, []).append(n)
        by_id = {id(n): n for lst in self.assigns.values() for n in lst}

        def events(node):
            n = by_id.get(id(node))
            if n is None:
                return []
            return [f"def:{t.id}:{n.lineno}" for t in n.targets if isinstance(t, ast.Name)]

        self.flow = Flow(func.node, resolver=self.res, events=events).run()
        self._busy: Set[Tuple[str, int]] = set()
        self._eff: Dict[int, Set[Tuple[str, bool]]] = {}

    def build_env(self):
        pass

    # -- on-demand lookup of a name at a site
    def lookup(self, name: str, site: ast.AST) -> Optional[D]:
        key = (name, id(site))
        if key in self._busy:
            return None
        self._busy.add(key)
        try:
            # 1. bound by an enclosing comprehension / for loop
            p = self.repo.parent(site)
            child = site
            while p is not None and p is not self.func.node:
                gens = []
                if isinstance(p, (ast.ListComp, ast.SetComp, ast.GeneratorExp, ast.DictComp)):
                    gens = [(g.target, g.iter, g) for g in p.generators]
                elif isinstance(p, ast.For) and child is not p.iter:
                    gens = [(p.target, p.iter, p)]
                for tgt, it, holder in gens:
                    d = self._bound_by(tgt, it, holder, name)
                    if d is not None:
                        return d
                child = p
                p = self.repo.parent(p)
            # 2. the latest dominating assignment
            if name in self.assigns:
                evs = self.flow.events_at(site) or set()
                doms = [int(e.split(":")[2]) for e in evs if e.startswith(f"def:{name}:")]
                if doms:
                    ln = max(doms)
                    asg = [a for a in self.assigns[name] if a.lineno == ln][0]
                    return self.desc(asg.value, asg)
            # 3. parameter
            if name in self.params:
                return self.params[name]
            # 4. any assignment (not dominating): union
            if name in self.assigns:
                types: Set[str] = set()
                elem = None
                for a in self.assigns[name]:
                    d = self.desc(a.value, a)
                    if d is not None:
                        types |= d.types
                        elem = elem or d.elem
                return D(types, elem, name) if types else None
            return None
        finally:
            self._busy.discard(key)

    def _bound_by(self, tgt: ast.AST, it: ast.AST, holder: ast.AST, name: str) -> Optional[D]:
        names = [t.id for t in ast.walk(tgt) if isinstance(t, ast.Name)]
        if name not in names:
            return None
        site = it
        if isinstance(it, ast.Call) and isinstance(it.func, ast.Attribute) and it.func.attr == "items" and isinstance(tgt, ast.Tuple) and len(tgt.elts) == 2:
            base = self.desc(it.func.value, site)
            if base is None:
                return None
            if isinstance(tgt.elts[0], ast.Name) and tgt.elts[0].id == name:
                return D({"str"}, None, name)
            el = base.element()
            return D(el.types, el.elem, name)
        d = self.desc(it, site)
        if d is None:
            return None
        item = d.iter_item()
        if isinstance(tgt, ast.Name):
            return D(item.types, item.elem, name)
        el = item.element()
        return D(el.types, el.elem, name)

    # -- descriptor of an expression at a site
    def desc(self, e: ast.AST, site: ast.AST, refine: bool = True) -> Optional[D]:
        d = self._desc(e, site, refine)
        if d is None or not refine:
            return d
        return self.refine(e, d, site)

    def _desc(self, e: ast.AST, site: ast.AST, refine: bool) -> Optional[D]:
        if isinstance(e, ast.Name):
            return self.lookup(e.id, site)
        if isinstance(e, ast.Subscript):
            b = self.desc(e.value, site, refine)
            if b is None:
                return None
            el = b.element()
            return D(el.types, el.elem, ast.unparse(e))
        if isinstance(e, ast.Call):
            fn = ast.unparse(e.func)
            if fn in SANITISERS or fn == "hex":
                return None
            if fn == "json.loads":
                return D({"dict"}, D(ANY), "json.loads(line)")
            if isinstance(e.func, ast.Attribute):
                b = self.desc(e.func.value, site, refine)
                if b is not None:
                    if e.func.attr == "get":
                        el = b.element()
                        return D(el.types | {"none"}, el.elem, ast.unparse(e))
                    if e.func.attr in ("items", "keys", "values"):
                        return D({"list"}, b.element() if e.func.attr == "values" else D({"str"}), b.origin + "." + e.func.attr + "()")
                    return None
            if fn == "dict" and e.args and isinstance(e.args[0], (ast.GeneratorExp, ast.ListComp)) and isinstance(e.args[0].elt, ast.Tuple) \
                    and len(e.args[0].elt.elts) == 2:
                # dict((key, value) for ...): the values are the second components
                v = self.desc_in_comp(e.args[0].elt.elts[1], e.args[0], site, refine)
                if v is not None:
                    return D({"dict"}, v, "dict(pairs)")
                return None
            if fn in ("set", "list", "tuple", "sorted", "dict", "frozenset") and e.args:
                a = self.desc(e.args[0], site, refine)
                if a is not None:
                    return D({"list"} if fn != "dict" else {"dict"}, a.iter_item() if not isinstance(e.args[0], ast.GeneratorExp) else a.elem, f"{fn}({a.origin})")
            return None
        if isinstance(e, (ast.ListComp, ast.SetComp, ast.GeneratorExp)):
            el = self.desc_in_comp(e.elt, e, site, refine)
            if el is not None:
                return D({"list"}, el, "comprehension")
            return None
        if isinstance(e, ast.DictComp):
            el = self.desc_in_comp(e.value, e, site, refine)
            return D({"dict"}, el, "dictcomp") if el is not None else None
        if isinstance(e, ast.Tuple):
            ds = [self.desc(x, site, refine) for x in e.elts]
            ds = [x for x in ds if x is not None]
            if ds:
                ts: Set[str] = set()
                for x in ds:
                    ts |= x.types
                return D({"list"}, D(ts), "tuple")
            return None
        if isinstance(e, ast.IfExp):
            a, b = self.desc(e.body, site, refine), self.desc(e.orelse, site, refine)
            if a is None and b is None:
                return None
            return D((a.types if a else frozenset()) | (b.types if b else frozenset()), (a or b).elem, "ifexp")
        if isinstance(e, ast.BinOp) and isinstance(e.op, ast.Sub):
            a = self.desc(e.left, site, refine)
            return a
        return None

    def desc_in_comp(self, e, comp, site, refine):
        return self.desc(e, e, refine)

    def iter_desc(self, iter_expr, it):
        return it.iter_item()

    # -- refinement by dominating guards
    def refine(self, e: ast.AST, d: D, site: ast.AST) -> D:
        gs = self.flow.guards_at(site)
        if gs is None:
            return D(frozenset(), None, d.origin)  # unreachable
        # plus what is known from where the locals tested on the way can have got their value (sa/provenance.py)
        ck = id(site)
        if ck not in self._eff:
            from .provenance import effective_guards
            self._eff[ck] = effective_guards(self.flow, self.res, self.func.node, site)
        gs = set(self._eff[ck]) | self.init_guards  # facts established by the caller about fields of a parameter
        subj = self.res.text(e)
        raw = ast.unparse(e)
        types = set(d.types)
        elem = d.elem
        for key, pol in gs:
            for s in {subj, raw}:
                if key.startswith(f"isinstance({s}, "):
                    tname = key[len(f"isinstance({s}, "):-1]
                    ts: Set[str] = set()
                    for part in tname.strip("()").split(","):
                        ts |= PYTYPE.get(part.strip(), set())
                    types = (types & ts) if pol else (types - ts)
                if key == f"{s} is None":
                    types = (types & {"none"}) if pol else (types - {"none"})
                if key == f"{s} is True" or key == f"{s} is False":
                    if pol:
                        types &= {"bool"}
                if key.startswith("all((isinstance(") and key.endswith(f" in {s}))"):
                    # all((isinstance(x, str) for x in s))
                    inner = key[len("all((isinstance("):]
                    var, rest = inner.split(", ", 1)
                    tname = rest.split(")")[0]
                    if pol and f" for {var} in {s}" in key:
                        elem = D(PYTYPE.get(tname, set()) or ANY)
                if key.startswith(f"type({s}) is "):
                    ts = PYTYPE.get(key[len(f"type({s}) is "):], set())
                    types = (types & ts) if pol else (types - ts)
        return D(types, elem, d.origin)

    # -- try/except coverage
    def handled(self, node: ast.AST, exc: str) -> Optional[str]:
        p = self.repo.parent(node)
        child = node
        while p is not None and p is not self.func.node:
            if isinstance(p, ast.Try) and child in p.body:
                for h in p.handlers:
                    names: List[str] = []
                    if h.type is None:
                        names = ["BaseException"]
                    elif isinstance(h.type, ast.Tuple):
                        names = [ast.unparse(x) for x in h.type.elts]
                    else:
                        names = [ast.unparse(h.type)]
                    for nm in names:
                        base = nm.split(".")[-1]
                        if base in ("Exception", "BaseException", exc) or (exc == "JSONDecodeError" and base == "ValueError") \
                                or (exc == "OverflowError" and base == "ArithmeticError") \
                                or (base == "LookupError" and exc in ("KeyError", "IndexError")):
                            return f"try at line {p.lineno} handles {nm}"
            child = p
            p = self.repo.parent(p)
        return None

    def sink(self, node, op, operand_expr, allowed, exc):
        d = self.desc(operand_expr, node)
        if d is None or not d.types:
            return
        if d.types <= set(allowed):
            return
        self.ta.sinks.append(Sink(self.func, node, op, ast.unparse(operand_expr), d, set(allowed), exc, self.handled(node, exc)))

    def elem_sink(self, node, op, operand_expr, allowed, exc):
        d = self.desc(operand_expr, node)
        if d is None or not d.types:
            return
        it = d.iter_item()
        if it.types <= set(allowed):
            return
        self.ta.sinks.append(Sink(self.func, node, op, ast.unparse(operand_expr) + "[*]", it, set(allowed), exc, self.handled(node, exc)))

    # -- main walk
    def analyse(self):
        self.build_env()
        NUM = {"int", "float", "bool"}
        for n in self.own:
            if isinstance(n, ast.Compare):
                ops = [n.left] + list(n.comparators)
                for i, op in enumerate(n.ops):
                    l, r = ops[i], ops[i + 1]
                    if isinstance(op, (ast.Lt, ast.LtE, ast.Gt, ast.GtE)):
                        self.sink(n, "ordering comparison", l, NUM, "TypeError")
                        self.sink(n, "ordering comparison", r, NUM, "TypeError")
                    elif isinstance(op, (ast.In, ast.NotIn)):
                        # container on the right
                        self.sink(n, "`in` on a non-container", r, {"str", "list", "dict"}, "TypeError")
                        dr = self.desc(r, n)
                        if dr is not None and "str" in dr.types and not isinstance(l, ast.Constant):
                            self.sink(n, "`x in <str>` with non-str x", l, {"str"}, "TypeError")
                        # tainted key looked up in a real dict/set
                        if dr is None:
                            self.sink(n, "membership test with an unhashable key", l, HASHABLE, "TypeError")
            elif isinstance(n, ast.Subscript) and isinstance(n.ctx, ast.Load):
                self.sink(n, "subscript", n.value, {"dict", "list", "str"}, "TypeError")
                if self.desc(n.value, n) is None:
                    self.sink(n, "dict key", n.slice, HASHABLE, "TypeError")
            elif isinstance(n, ast.Call):
                fn = ast.unparse(n.func)
                if isinstance(n.func, ast.Attribute):
                    recv = n.func.value
                    if n.func.attr in ("items", "keys", "values", "get"):
                        self.sink(n, f".{n.func.attr}()", recv, {"dict"}, "AttributeError")
                    elif n.func.attr == "join" and n.args:
                        self.elem_sink(n, "str.join of non-str items", n.args[0], {"str"}, "TypeError")
                    elif n.func.attr in ("startswith", "endswith", "lower", "upper", "strip", "split"):
                        self.sink(n, f".{n.func.attr}()", recv, {"str"}, "AttributeError")
                if fn == "int" and len(n.args) == 2:
                    self.sink(n, "int(v, base)", n.args[0], {"str"}, "TypeError")
                elif fn == "hex" and n.args:
                    self.sink(n, "hex(v)", n.args[0], {"int", "bool"}, "TypeError")
                elif fn in ("set", "frozenset") and n.args:
                    self.sink(n, "set() of a non-iterable", n.args[0], {"str", "list", "dict"}, "TypeError")
                    self.elem_sink(n, "set() of unhashable items", n.args[0], HASHABLE, "TypeError")
                elif fn == "len" and n.args:
                    self.sink(n, "len(v)", n.args[0], {"str", "list", "dict"}, "TypeError")
                elif fn == "escape" and n.args:
                    self.sink(n, "escape(v)", n.args[0], {"str"}, "TypeError")
                elif fn in ("float",) and n.args:
                    self.sink(n, "float(v)", n.args[0], {"str", "int", "float", "bool"}, "TypeError")
                    # a JSON integer has no upper bound: float(10**400) raises OverflowError (an ArithmeticError, not a ValueError)
                    self.sink(n, "float(v) of an integer of any size", n.args[0], ANY - {"int"}, "OverflowError")
                # calls into the same module with tainted arguments
                callee = self.repo.funcs.get(f"{self.ta.modname}:{fn}")
                if callee is None and isinstance(n.func, ast.Attribute) and isinstance(n.func.value, ast.Name) and n.func.value.id in ("kconfiglib", "core"):
                    # helpers of the library that are handed a request value (is_float, _is_base_n, ...)
                    callee = self.repo.funcs.get(f"esp_kconfiglib.core:{n.func.attr}")
                if callee is not None:
                    params = [a.arg for a in callee.node.args.args]
                    bound: Dict[str, D] = {}
                    carry: Set[Tuple[str, bool]] = set()
                    from .provenance import effective_guards
                    here = effective_guards(self.flow, self.res, self.func.node, n) | self.init_guards
                    for pn, a in zip(params, n.args):
                        d = self.desc(a, n)
                        if d is not None and d.types:
                            bound[pn] = D(d.types, d.elem, pn)
                            if isinstance(a, ast.Name):
                                for k, pol in here:
                                    if f"{a.id}[" in k:
                                        carry.add((k.replace(f"{a.id}[", f"{pn}["), pol))
                    if bound:
                        self.ta.run(callee, bound, carry)
            elif isinstance(n, (ast.For, ast.comprehension)):
                self.sink(n.iter if isinstance(n, ast.comprehension) else n, "iteration", n.iter, {"str", "list", "dict"}, "TypeError") \
                    if not (isinstance(n.iter, ast.Call) and isinstance(n.iter.func, ast.Attribute)) else None
