"""Access-path read sets: which components of a root object (usually `self`) does a function read
*dynamically* (evaluate), directly or through helpers it calls. Program-order environment of local
aliases, bounded inlining of same-module functions, methods and properties of the root's class."""
from __future__ import annotations

import ast
from typing import Callable, Dict, List, Optional, Set, Tuple

from .repo import Func, Repo


def path_text(e: ast.AST, env: Dict[str, str]) -> Optional[str]:
    if isinstance(e, ast.Name):
        return env.get(e.id)
    if isinstance(e, ast.Attribute):
        b = path_text(e.value, env)
        return None if b is None else f"{b}.{e.attr}"
    if isinstance(e, ast.Subscript):
        b = path_text(e.value, env)
        if b is None:
            return None
        s = e.slice
        if isinstance(s, ast.Constant) and isinstance(s.value, int):
            return f"{b}[{s.value}]"
        return f"{b}[*]"
    return None


class Read:
    __slots__ = ("path", "via", "func", "line", "chain")

    def __init__(self, path, via, func, line, chain):
        self.path, self.via, self.func, self.line, self.chain = path, via, func, line, chain

    def __repr__(self):
        return f"Read({self.path} via {self.via} in {self.func}:{self.line})"


class PathWalker(ast.NodeVisitor):
    """Visits one function in program order. Subclasses / callbacks decide what a 'read' is."""

    def __init__(self, analysis: "ReadSetAnalysis", func: Func, env: Dict[str, str], depth: int, chain: Tuple[str, ...]):
        self.a = analysis
        self.func = func
        self.env = dict(env)
        self.depth = depth
        self.chain = chain + (func.short,)

    # -- environment
    def bind(self, tgt: ast.AST, p: Optional[str]):
        if isinstance(tgt, ast.Name):
            if p is None:
                self.env.pop(tgt.id, None)
            else:
                self.env[tgt.id] = p
        elif isinstance(tgt, (ast.Tuple, ast.List)):
            for i, t in enumerate(tgt.elts):
                self.bind(t, None if p is None else f"{p}[{i}]")

    def path(self, e: ast.AST) -> Optional[str]:
        return path_text(e, self.env)

    # -- statements that bind
    def visit_For(self, n: ast.For):
        self.visit(n.iter)
        p = self.path(n.iter)
        self.bind(n.target, None if p is None else p + "[*]")
        for s in n.body:
            self.visit(s)
        for s in n.orelse:
            self.visit(s)

    def visit_Assign(self, n: ast.Assign):
        self.visit(n.value)
        p = self.path(n.value)
        for t in n.targets:
            if isinstance(t, (ast.Name, ast.Tuple, ast.List)):
                self.bind(t, p)
            else:
                self.visit(t)

    def visit_AnnAssign(self, n: ast.AnnAssign):
        if n.value is not None:
            self.visit(n.value)
            self.bind(n.target, self.path(n.value))

    def _comp(self, n):
        saved = dict(self.env)
        for g in n.generators:
            self.visit(g.iter)
            p = self.path(g.iter)
            self.bind(g.target, None if p is None else p + "[*]")
            for c in g.ifs:
                self.visit(c)
        if isinstance(n, ast.DictComp):
            self.visit(n.key)
            self.visit(n.value)
        else:
            self.visit(n.elt)
        self.env = saved

    visit_ListComp = visit_SetComp = visit_GeneratorExp = visit_DictComp = _comp

    def visit_FunctionDef(self, n):
        return  # nested defs are analysed only when called

    visit_AsyncFunctionDef = visit_FunctionDef

    def visit_Lambda(self, n):
        self.visit(n.body)

    # -- reads
    def visit_Attribute(self, n: ast.Attribute):
        b = self.path(n.value)
        if b is not None and n.attr in self.a.dyn_attrs:
            if b == self.a.root:
                if not self.a.inline_property(self, n.attr, n):
                    self.a.record(Read(b, n.attr, self.func.short, n.lineno, self.chain))
            else:
                self.a.record(Read(b, n.attr, self.func.short, n.lineno, self.chain))
        elif b is not None and b == self.a.root and n.attr in self.a.class_properties and isinstance(n.ctx, ast.Load):
            self.a.inline_property(self, n.attr, n)
        self.generic_visit(n)

    def visit_Call(self, n: ast.Call):
        f = n.func
        if isinstance(f, ast.Name):
            if f.id in self.a.dyn_funcs and n.args:
                p = self.path(n.args[0])
                if p is not None:
                    self.a.record(Read(p, f.id + "()", self.func.short, n.lineno, self.chain))
            else:
                self.a.inline_call(self, f.id, n)
        elif isinstance(f, ast.Attribute) and isinstance(f.value, ast.Name) and self.env.get(f.value.id) == self.a.root:
            self.a.inline_method(self, f.attr, n)
        self.generic_visit(n)


class ReadSetAnalysis:
    def __init__(self, repo: Repo, modname: str, cls: Optional[str], depth: int,
                 dyn_attrs: Set[str], dyn_funcs: Set[str], root: str = "self"):
        self.repo = repo
        self.modname = modname
        self.cls = cls
        self.depth = depth
        self.dyn_attrs = dyn_attrs
        self.dyn_funcs = dyn_funcs
        self.root = root
        self.reads: List[Read] = []
        self.seen: Set[Tuple[str, Tuple[Tuple[str, str], ...]]] = set()
        self.functions: Set[str] = set()
        self.class_properties: Set[str] = set()
        if cls:
            for name, f in repo.methods(f"{modname}:{cls}").items():
                if f.is_property():
                    self.class_properties.add(name)

    def record(self, r: Read):
        self.reads.append(r)

    def run(self, func: Func, env: Optional[Dict[str, str]] = None, depth: Optional[int] = None,
            chain: Tuple[str, ...] = ()):
        env = env if env is not None else {self.root: self.root}
        key = (func.qual, tuple(sorted(env.items())))
        if key in self.seen:
            return
        self.seen.add(key)
        self.functions.add(func.qual)
        w = PathWalker(self, func, env, self.depth if depth is None else depth, chain)
        for s in func.node.body:  # type: ignore[attr-defined]
            w.visit(s)

    # -- inlining
    def _method(self, name: str) -> Optional[Func]:
        if not self.cls:
            return None
        return self.repo.funcs.get(f"{self.modname}:{self.cls}.{name}")

    def inline_property(self, w: PathWalker, name: str, node: ast.AST) -> bool:
        m = self._method(name)
        if m is None or not m.is_property():
            return False
        if w.depth <= 0:
            self.record(Read(self.root, name + " (depth limit)", w.func.short, getattr(node, "lineno", 0), w.chain))
            return True
        self.run(m, {"self": self.root}, w.depth - 1, w.chain)
        return True

    def inline_method(self, w: PathWalker, name: str, call: ast.Call):
        m = self._method(name)
        if m is None or w.depth <= 0:
            return
        env = {"self": self.root}
        params = [a.arg for a in m.node.args.args][1:]  # type: ignore[attr-defined]
        for pn, arg in zip(params, call.args):
            p = w.path(arg)
            if p is not None:
                env[pn] = p
        self.run(m, env, w.depth - 1, w.chain)

    def inline_call(self, w: PathWalker, fname: str, call: ast.Call):
        f = self.repo.funcs.get(f"{self.modname}:{fname}")
        if f is None or w.depth <= 0:
            return
        params = [a.arg for a in f.node.args.args]  # type: ignore[attr-defined]
        env: Dict[str, str] = {}
        for pn, arg in zip(params, call.args):
            p = w.path(arg)
            if p is not None:
                env[pn] = p
        if not env:
            return
        self.run(f, env, w.depth - 1, w.chain)

    def components(self) -> Dict[str, List[Read]]:
        out: Dict[str, List[Read]] = {}
        for r in self.reads:
            out.setdefault(r.path, []).append(r)
        return out
