"""Further behaviour-preserving whole-tree transformations used as benign twins by the self-test (see selftest.TWINS)
and by tools/twin_lab.py: reordered definitions, stdlib logging calls, annotated locals, explaining variables,
else-after-return flattened / unflattened."""
from __future__ import annotations

import ast

from . import selftest as st


def _rewrite(root, fn):
    for p in st._py_files(root):
        tree = ast.parse(open(p, encoding="utf-8").read())
        tree = fn(tree) or tree
        ast.fix_missing_locations(tree)
        open(p, "w", encoding="utf-8").write(ast.unparse(tree) + "\n")


# ---------------------------------------------------------------- reorder definitions
def reorder_defs(root):
    """methods of every class are emitted in reverse order (class-level assignments stay first); module-level functions
    are moved below in reverse order (after everything else except the `if __name__` block)"""
    def tr(tree):
        for n in ast.walk(tree):
            if isinstance(n, ast.ClassDef):
                # keep relative order of non-def statements; reverse the plain (undecorated-dependence-free) defs
                defs = [x for x in n.body if isinstance(x, ast.FunctionDef) and not any(isinstance(d, ast.Attribute) and d.attr in ("setter", "deleter") for d in x.decorator_list)]
                names_used_in_body = {y.id for x in n.body if not isinstance(x, ast.FunctionDef) for y in ast.walk(x) if isinstance(y, ast.Name)}
                movable = [d for d in defs if d.name not in names_used_in_body and not any(isinstance(dd, ast.Attribute) for dd in d.decorator_list)]
                # a property getter must stay before its setter: only move defs whose name is unique in the class
                cnt = {}
                for x in n.body:
                    if isinstance(x, ast.FunctionDef):
                        cnt[x.name] = cnt.get(x.name, 0) + 1
                movable = [d for d in movable if cnt[d.name] == 1]
                slots = [i for i, x in enumerate(n.body) if x in movable]
                for i, d in zip(slots, reversed(movable)):
                    n.body[i] = d
        return tree
    _rewrite(root, tr)


# ---------------------------------------------------------------- logging
class _LogInserter(st._PassInserter):
    def _do(self, body):
        out = []
        for s in body:
            out.append(s)
            if isinstance(s, (ast.Assign, ast.AugAssign, ast.AnnAssign, ast.Expr)) and not (isinstance(s, ast.Expr) and isinstance(s.value, ast.Constant)):
                out.append(ast.parse("_TRACE.debug('step')").body[0])
        return out


def logging_twin(root):
    """a `_TRACE.debug('step')` call (stdlib logging, goes nowhere by default) after every simple statement"""
    def tr(tree):
        tree = _LogInserter().visit(tree)
        i = 0
        while i < len(tree.body) and (isinstance(tree.body[i], ast.Expr) and isinstance(tree.body[i].value, ast.Constant) or
                                      isinstance(tree.body[i], ast.ImportFrom) and tree.body[i].module == "__future__"):
            i += 1
        tree.body[i:i] = ast.parse("import logging as _logging\n_TRACE = _logging.getLogger(__name__)").body
        return tree
    _rewrite(root, tr)


# ---------------------------------------------------------------- annotate locals
class _Annotate(ast.NodeTransformer):
    depth = 0

    def visit_FunctionDef(self, n):
        self.depth += 1
        self.seen = getattr(self, "seen", set())
        outer, self.seen = self.seen, set()
        # names that are global/nonlocal cannot be annotated
        self.banned = {x for g in ast.walk(n) if isinstance(g, (ast.Global, ast.Nonlocal)) for x in g.names}
        self.generic_visit(n)
        self.seen = outer
        self.depth -= 1
        return n

    def visit_Assign(self, n):
        if self.depth and len(n.targets) == 1 and isinstance(n.targets[0], ast.Name) and n.targets[0].id not in self.seen \
                and n.targets[0].id not in self.banned:
            self.seen.add(n.targets[0].id)
            return ast.AnnAssign(target=n.targets[0], annotation=ast.Name(id="object", ctx=ast.Load()), value=n.value, simple=1)
        return n


def annotate(root):
    """the first plain assignment of every local becomes an annotated assignment (`x: object = value`)"""
    _rewrite(root, lambda t: _Annotate().visit(t))


# ---------------------------------------------------------------- explaining variable
class _Explain(ast.NodeTransformer):
    depth = 0
    k = 0

    def visit_FunctionDef(self, n):
        self.depth += 1
        self.generic_visit(n)
        self.depth -= 1
        return n

    def _do(self, body):
        out = []
        for s in body:
            if isinstance(s, ast.If) and not isinstance(s.test, (ast.Name, ast.Constant)) and not s.orelse_is_elif:
                self.k += 1
                nm = f"cond_{self.k}"
                out.append(ast.Assign(targets=[ast.Name(id=nm, ctx=ast.Store())], value=s.test))
                s.test = ast.Name(id=nm, ctx=ast.Load())
            out.append(s)
        return out

    def generic_visit(self, node):
        # mark elif chains so that only the head of a chain is rewritten (an elif test cannot be hoisted)
        for fld in ("body", "orelse", "finalbody"):
            b = getattr(node, fld, None)
            if isinstance(b, list):
                for s in b:
                    if isinstance(s, ast.If):
                        s.orelse_is_elif = False
        if isinstance(node, ast.If) and len(node.orelse) == 1 and isinstance(node.orelse[0], ast.If):
            pass
        super().generic_visit(node)
        if self.depth > 0:
            for fld in ("body", "orelse", "finalbody"):
                b = getattr(node, fld, None)
                if isinstance(b, list) and b and isinstance(b[0], ast.stmt):
                    if fld == "orelse" and isinstance(node, ast.If) and len(b) == 1 and isinstance(b[0], ast.If):
                        continue  # elif: leave
                    setattr(node, fld, self._do(b))
        return node


def explain_var(root):
    """`if <expr>:` (head of a chain, not elif) becomes `cond_k = <expr>; if cond_k:`"""
    _rewrite(root, lambda t: _Explain().visit(t))


# ---------------------------------------------------------------- else flattening
def _terminates(body):
    return bool(body) and isinstance(body[-1], (ast.Return, ast.Raise, ast.Continue, ast.Break))


class _ElseFlatten(ast.NodeTransformer):
    def _do(self, body):
        out = []
        for s in body:
            if isinstance(s, ast.If) and s.orelse and _terminates(s.body) and not (len(s.orelse) == 1 and isinstance(s.orelse[0], ast.If)):
                tail, s.orelse = s.orelse, []
                out.append(s)
                out.extend(tail)
            else:
                out.append(s)
        return out

    def generic_visit(self, node):
        super().generic_visit(node)
        for fld in ("body", "orelse", "finalbody"):
            b = getattr(node, fld, None)
            if isinstance(b, list) and b and isinstance(b[0], ast.stmt):
                setattr(node, fld, self._do(b))
        return node


def else_flatten(root):
    """`if c: ...; return` + `else: B` becomes `if c: ...; return` followed by B"""
    _rewrite(root, lambda t: _ElseFlatten().visit(t))


class _ElseUnflatten(ast.NodeTransformer):
    def _do(self, body):
        out = []
        i = 0
        while i < len(body):
            s = body[i]
            if isinstance(s, ast.If) and not s.orelse and _terminates(s.body) and i + 1 < len(body):
                s.orelse = body[i + 1:]
                out.append(s)
                return out
            out.append(s)
            i += 1
        return out

    def generic_visit(self, node):
        super().generic_visit(node)
        if isinstance(node, (ast.FunctionDef,)):
            node.body = self._do(node.body)
        return node


def else_unflatten(root):
    """at function level, the statements after a terminating `if c: return` move into its `else:`"""
    _rewrite(root, lambda t: _ElseUnflatten().visit(t))


