"""Inlining of *new* helper functions (in memory only).

`Extract function` is the most common behaviour-preserving refactoring, and it moves the code a rule is anchored in out of
the function the rule names. Before any rule runs, every function of a module that is **not** in the committed reference
list of function names (`sa/known_funcs.json`, generated from a green tree by tools/gen_localsig.py) and that is a plain
helper - no decorators other than staticmethod, no *args/**kwargs, not recursive, no nested defs, no global/nonlocal - is
inlined back into its call sites in the same module:

* `H(args)` as a statement, `x = H(args)`, `return H(args)`, `if [not] H(args):`, or `H(args)` evaluated unconditionally
  inside a simple statement (hoisted to a temporary first);
* parameters are substituted by simple arguments (names, attribute chains, constants) and bound to temporaries otherwise;
  keyword arguments and defaults are honoured;
* the helper's locals are renamed when they clash with names of the caller;
* `return e` becomes an assignment to the result and the statements that would have been skipped move into the other
  branch (returns are supported in tail position of `if` chains; a `return` inside a loop / try / with aborts the inlining
  of that site - the helper call then simply stays);
* a generator helper with a single `yield` that is consumed by a `for` loop is inlined by putting the loop body in place
  of the `yield`.

The helper's own definition is left in place. Nothing is inlined that is known to the reference tree, so the analysed shape
of the unchanged code does not move. The transformation is sound for the analyses built on it (same statements, same
guards, same order); it is not used to produce code."""
from __future__ import annotations

import ast
import copy
import json
import os
from typing import Dict, List, Optional, Set, Tuple

KNOWN_PATH = os.path.join(os.path.dirname(os.path.abspath(__file__)), "known_funcs.json")
_KNOWN: Optional[Dict[str, List[str]]] = None


def known_funcs() -> Dict[str, List[str]]:
    global _KNOWN
    if _KNOWN is None:
        _KNOWN = json.load(open(KNOWN_PATH)) if os.path.exists(KNOWN_PATH) else {}
    return _KNOWN


def all_function_quals(tree: ast.Module) -> Dict[str, Tuple[ast.AST, Optional[str], Optional[ast.AST]]]:
    """qual -> (def node, class name or None, enclosing function def or None); naming as in sa/repo.py"""
    out: Dict[str, Tuple[ast.AST, Optional[str], Optional[ast.AST]]] = {}

    def rec(body, prefix, cls, outer):
        for n in body:
            if isinstance(n, ast.ClassDef) and outer is None:
                rec(n.body, prefix + n.name + ".", n.name, None)
            elif isinstance(n, (ast.FunctionDef, ast.AsyncFunctionDef)):
                out[prefix + n.name] = (n, cls, outer)
                nested(n, prefix + n.name + ".<locals>.", cls, n)

    def nested(fn, prefix, cls, outer):
        for n in ast.walk(fn):
            if n is fn:
                continue
            if isinstance(n, (ast.FunctionDef, ast.AsyncFunctionDef)) and _direct_parent_func(fn, n):
                out[prefix + n.name] = (n, cls, outer)
                nested(n, prefix + n.name + ".<locals>.", cls, n)

    rec(tree.body, "", None, None)
    return out


def _direct_parent_func(fn: ast.AST, inner: ast.AST) -> bool:
    """inner is defined in fn's body (at any block depth) but not inside another nested def"""
    stack = list(ast.iter_child_nodes(fn))
    while stack:
        n = stack.pop()
        if n is inner:
            return True
        if isinstance(n, (ast.FunctionDef, ast.AsyncFunctionDef, ast.Lambda, ast.ClassDef)):
            continue
        stack.extend(ast.iter_child_nodes(n))
    return False


class _Abort(Exception):
    pass


def _has(node_or_list, types) -> bool:
    nodes = node_or_list if isinstance(node_or_list, list) else [node_or_list]
    return any(isinstance(x, types) for n in nodes for x in ast.walk(n))


def _eligible(fn: ast.AST) -> bool:
    if not isinstance(fn, ast.FunctionDef):
        return False
    for d in fn.decorator_list:
        if not ((isinstance(d, ast.Name) and d.id in ("staticmethod", "contextmanager"))
                or (isinstance(d, ast.Attribute) and d.attr == "contextmanager")):
            return False
    a = fn.args
    if a.vararg or a.kwarg or a.posonlyargs:
        return False
    for n in ast.walk(fn):
        if n is fn:
            continue
        if isinstance(n, (ast.FunctionDef, ast.AsyncFunctionDef, ast.Lambda, ast.ClassDef, ast.Global, ast.Nonlocal, ast.YieldFrom, ast.Await)):
            return False
        if isinstance(n, ast.Call) and isinstance(n.func, ast.Name) and n.func.id == fn.name:
            return False
        if isinstance(n, ast.Call) and isinstance(n.func, ast.Attribute) and n.func.attr == fn.name:
            return False
    return True


def _body_wo_doc(fn: ast.FunctionDef) -> List[ast.stmt]:
    b = list(fn.body)
    if b and isinstance(b[0], ast.Expr) and isinstance(b[0].value, ast.Constant) and isinstance(b[0].value.value, str):
        b = b[1:]
    return b


class _Sub(ast.NodeTransformer):
    def __init__(self, names: Dict[str, ast.AST], renames: Dict[str, str]):
        self.names, self.renames = names, renames

    def visit_Name(self, n):
        if n.id in self.names and isinstance(n.ctx, ast.Load):
            return copy.deepcopy(self.names[n.id])
        if n.id in self.renames:
            return ast.copy_location(ast.Name(id=self.renames[n.id], ctx=n.ctx), n)
        return n

    def visit_ExceptHandler(self, n):
        if n.name in self.renames:
            n.name = self.renames[n.name]
        self.generic_visit(n)
        return n


def _simple_arg(a: ast.AST) -> bool:
    while isinstance(a, ast.Attribute):
        a = a.value
    return isinstance(a, (ast.Name, ast.Constant))


def _names_in(node: ast.AST) -> Set[str]:
    return {x.id for x in ast.walk(node) if isinstance(x, ast.Name)} | {x.arg for x in ast.walk(node) if isinstance(x, ast.arg)}


def _scope_names(fn: ast.AST) -> Set[str]:
    """the names that live in the scope of the function itself: its own names and parameters, and what nested functions read
    from it as free variables - not the locals of nested functions (a helper's local may share their name)"""
    own: Set[str] = set()
    nested = []

    def walk(n, top):
        for c in ast.iter_child_nodes(n):
            if isinstance(c, (ast.FunctionDef, ast.AsyncFunctionDef, ast.Lambda)) and not top is None:
                nested.append(c)
                if not isinstance(c, ast.Lambda):
                    own.add(c.name)
                continue
            if isinstance(c, ast.Name):
                own.add(c.id)
            elif isinstance(c, ast.arg):
                own.add(c.arg)
            walk(c, top)
    walk(fn, fn)
    for sub in nested:
        bound = {x.id for x in ast.walk(sub) if isinstance(x, ast.Name) and isinstance(x.ctx, (ast.Store, ast.Del))} | {a.arg for a in ast.walk(sub) if isinstance(a, ast.arg)}
        if any(isinstance(x, (ast.Nonlocal, ast.Global)) for x in ast.walk(sub)):
            own |= _names_in(sub)
        else:
            own |= {x.id for x in ast.walk(sub) if isinstance(x, ast.Name) and x.id not in bound}
    return own


def _block_local(fn: ast.AST, name: str) -> bool:
    """every read of `name` in the function's own scope is preceded, in its own block or a block around it (inside the same
    loop body), by a plain assignment to it: the name is a temporary that carries nothing from one region of the function to
    another, so a helper's local of the same name can share it"""
    parent: Dict[int, Tuple[ast.AST, Optional[str], int]] = {}

    def link(n):
        for fld, val in ast.iter_fields(n):
            if isinstance(val, list):
                for i, c in enumerate(val):
                    if isinstance(c, ast.AST):
                        parent[id(c)] = (n, fld if val and isinstance(val[0], ast.stmt) else None, i)
                        if not isinstance(c, (ast.FunctionDef, ast.AsyncFunctionDef, ast.Lambda, ast.ClassDef)):
                            link(c)
            elif isinstance(val, ast.AST):
                parent[id(val)] = (n, None, 0)
                if not isinstance(val, (ast.FunctionDef, ast.AsyncFunctionDef, ast.Lambda, ast.ClassDef)):
                    link(val)
    link(fn)
    loads = [x for x in ast.walk(fn) if isinstance(x, ast.Name) and x.id == name and isinstance(x.ctx, ast.Load) and id(x) in parent]
    for x in loads:
        cur: ast.AST = x
        ok = False
        while id(cur) in parent:
            par, fld, i = parent[id(cur)]
            if fld is not None:
                block = getattr(par, fld)
                if any(isinstance(s_, ast.Assign) and any(isinstance(t, ast.Name) and t.id == name for t in s_.targets) for s_ in block[:i]):
                    ok = True
                    break
            if par is fn or isinstance(par, (ast.For, ast.While)) and fld == "body":
                break
            cur = par
        if not ok:
            return False
    return True


def _always_terminates(stmts: List[ast.stmt]) -> bool:
    if not stmts:
        return False
    last = stmts[-1]
    if isinstance(last, (ast.Return, ast.Raise)):
        return True
    if isinstance(last, ast.If):
        return bool(last.orelse) and _always_terminates(last.body) and _always_terminates(last.orelse)
    return False


def _conv(stmts: List[ast.stmt], mk_result) -> List[ast.stmt]:
    """statements with every `return e` replaced by mk_result(e); what a return would have skipped moves to the other arm"""
    out: List[ast.stmt] = []
    for i, st in enumerate(stmts):
        if isinstance(st, ast.Return):
            out += mk_result(st.value, st)
            return out
        if _has(st, ast.Return):
            if not isinstance(st, ast.If):
                raise _Abort()  # return inside loop / try / with
            rest = stmts[i + 1:]
            if _always_terminates(st.body) and not _has(st.orelse, ast.Return) and not st.orelse:
                new = ast.If(test=st.test, body=_conv(st.body, mk_result), orelse=_conv(rest, mk_result) if rest else [])
            elif _always_terminates(st.body):
                new = ast.If(test=st.test, body=_conv(st.body, mk_result), orelse=_conv(list(st.orelse) + rest, mk_result))
            elif st.orelse and _always_terminates(st.orelse):
                new = ast.If(test=st.test, body=_conv(list(st.body) + rest, mk_result), orelse=_conv(st.orelse, mk_result))
            else:
                new = ast.If(test=st.test, body=_conv(list(st.body) + copy.deepcopy(rest), mk_result),
                             orelse=_conv(list(st.orelse) + rest, mk_result))
            if not new.body:
                new.body = [ast.Pass()]
            out.append(ast.copy_location(new, st))
            return out
        out.append(st)
    return out


def _drop_self_assignments(stmts: List[ast.stmt]) -> List[ast.stmt]:
    """`x = x` left behind when the helper's result variable and the caller's target have the same name"""
    out = []
    for st in stmts:
        if isinstance(st, ast.Assign) and len(st.targets) == 1 and isinstance(st.targets[0], ast.Name) and isinstance(st.value, ast.Name) \
                and st.targets[0].id == st.value.id:
            continue
        for fld in ("body", "orelse", "finalbody"):
            b = getattr(st, fld, None)
            if isinstance(b, list) and b and isinstance(b[0], ast.stmt):
                nb = _drop_self_assignments(b)
                setattr(st, fld, nb if (nb or fld != "body") else [ast.Pass()])
        out.append(st)
    return out


class Inliner:
    def __init__(self, tree: ast.Module, modname: str):
        self.tree, self.modname = tree, modname
        self.count = 0
        self.k = 0
        self.touched: List[ast.AST] = []

    def run(self) -> int:
        known = set(known_funcs().get(self.modname, []))
        if not known:
            return 0  # no reference list for this module: nothing is "new"
        self._shared_recursive_workers(known)
        for _ in range(3):  # helpers calling helpers
            quals = all_function_quals(self.tree)
            new = {q: v for q, v in quals.items() if q not in known and _eligible(v[0])}
            if not new:
                break
            before = self.count
            for q, (h, cls, outer) in new.items():
                for cq, (caller, ccls, couter) in quals.items():
                    if caller is h:
                        continue
                    self._inline_into(caller, h, cls, ccls, outer)
            if self.count == before:
                break
        if self.count:
            self._drop_fully_inlined(known)
            ast.fix_missing_locations(self.tree)
            for fn in self.touched:
                renumber(fn)
        return self.count

    def _shared_recursive_workers(self, known: Set[str]) -> None:
        """`def m(self): W(self)` in several classes with one new module-level, self-recursive worker `W(x)` (`merge duplicated
        methods into one function`): W's body goes back into each `m`, its recursive calls `W(e)` become `e.m()`."""
        quals = all_function_quals(self.tree)
        for q, (h, cls, outer) in list(quals.items()):
            if q in known or cls is not None or outer is not None or not isinstance(h, ast.FunctionDef):
                continue
            ps = [a.arg for a in h.args.args]
            if len(ps) != 1 or h.args.vararg or h.args.kwarg or h.args.kwonlyargs or h.decorator_list:
                continue
            rec = [c for c in ast.walk(h) if isinstance(c, ast.Call) and isinstance(c.func, ast.Name) and c.func.id == h.name]
            if not rec or any(len(c.args) != 1 or c.keywords for c in rec):
                continue
            if any(isinstance(n, (ast.Return, ast.Yield, ast.YieldFrom, ast.FunctionDef, ast.Lambda)) and not (isinstance(n, ast.Return) and n.value is None)
                   for n in ast.walk(h) if n is not h):
                continue
            wrappers = []
            ok = True
            for cq, (c, ccls, couter) in quals.items():
                if c is h:
                    continue
                calls = [x for x in ast.walk(c) if isinstance(x, ast.Call) and isinstance(x.func, ast.Name) and x.func.id == h.name]
                if not calls:
                    continue
                body = _body_wo_doc(c)
                if ccls is None or couter is not None or len(body) != 1 or not (isinstance(body[0], ast.Expr) and body[0].value is calls[0]) \
                        or len(calls) != 1 or ast.unparse(calls[0].args[0]) != "self":
                    ok = False
                    break
                wrappers.append(c)
            refs = [n for n in ast.walk(self.tree) if isinstance(n, ast.Name) and n.id == h.name]
            if not ok or len(wrappers) < 2 or len({w.name for w in wrappers}) != 1 or len(refs) != len(rec) + len(wrappers):
                continue
            mname = wrappers[0].name
            for w in wrappers:
                body = copy.deepcopy(_body_wo_doc(h))

                class T(ast.NodeTransformer):
                    def visit_Call(s_, n):
                        s_.generic_visit(n)
                        if isinstance(n.func, ast.Name) and n.func.id == h.name:
                            return ast.copy_location(ast.Call(func=ast.Attribute(value=n.args[0], attr=mname, ctx=ast.Load()), args=[], keywords=[]), n)
                        return n

                    def visit_Name(s_, n):
                        if n.id == ps[0]:
                            return ast.copy_location(ast.Name(id="self", ctx=n.ctx), n)
                        return n
                body = [T().visit(x) for x in body]
                doc = [x for x in w.body if isinstance(x, ast.Expr) and isinstance(x.value, ast.Constant) and isinstance(x.value.value, str)][:1]
                w.body = doc + body
                self.count += 1
                self.touched.append(w)
            for parent in ast.walk(self.tree):
                b = getattr(parent, "body", None)
                if isinstance(b, list) and any(x is h for x in b):
                    b[:] = [x for x in b if x is not h]

    def _drop_fully_inlined(self, known: Set[str]) -> None:
        """a new helper that is no longer referenced anywhere in the module has been absorbed by its callers: its own
        definition is removed from the analysed tree (rules that enumerate `every function that writes X` would otherwise
        see the same statements twice, once without the caller's guards)"""
        quals = all_function_quals(self.tree)
        for q, (h, cls, outer) in quals.items():
            if q in known or not _eligible(h):
                continue
            refs = [n for n in ast.walk(self.tree) if (isinstance(n, ast.Name) and n.id == h.name) or (isinstance(n, ast.Attribute) and n.attr == h.name)]
            if refs:
                continue
            for parent in ast.walk(self.tree):
                for fld in ("body", "orelse", "finalbody"):
                    b = getattr(parent, fld, None)
                    if isinstance(b, list) and any(x is h for x in b):
                        b[:] = [x for x in b if x is not h] or [ast.copy_location(ast.Pass(), h)]

    # ------------------------------------------------------------------ call-site handling
    def _is_call_of(self, c: ast.AST, h: ast.FunctionDef, hcls: Optional[str], ccls: Optional[str], houter) -> bool:
        if not isinstance(c, ast.Call):
            return False
        if isinstance(c.func, ast.Name) and c.func.id == h.name and (hcls is None or houter is not None):
            return True
        if isinstance(c.func, ast.Attribute) and c.func.attr == h.name and hcls is not None and houter is None and isinstance(c.func.value, ast.Name) \
                and ((c.func.value.id == "self" and ccls == hcls) or c.func.value.id == hcls):
            return True
        return False

    def _inline_into(self, caller: ast.AST, h: ast.FunctionDef, hcls, ccls, houter) -> None:
        if houter is not None and not (caller is houter or _direct_parent_func(houter, caller) or any(x is caller for x in ast.walk(houter))):
            return  # a nested helper is only visible inside its enclosing function
        is_gen = _has(_body_wo_doc(h), ast.Yield)
        for node in ast.walk(caller):
            if isinstance(node, (ast.FunctionDef, ast.AsyncFunctionDef)) and node is not caller:
                continue
            for fld in ("body", "orelse", "finalbody"):
                b = getattr(node, fld, None)
                if not (isinstance(b, list) and b and isinstance(b[0], ast.stmt)):
                    continue
                i = 0
                while i < len(b):
                    st = b[i]
                    repl = None
                    try:
                        repl = self._try_stmt(st, caller, h, hcls, ccls, houter, is_gen)
                    except _Abort:
                        repl = None
                    if repl is not None:
                        for r in repl:
                            ast.copy_location(r, st)
                            for x in ast.walk(r):
                                if not hasattr(x, "lineno") and isinstance(x, (ast.expr, ast.stmt)):
                                    ast.copy_location(x, st)
                        b[i:i + 1] = repl
                        self.count += 1
                        if not any(caller is t for t in self.touched):
                            self.touched.append(caller)
                        i += len(repl)
                    else:
                        i += 1

    def _calls_in(self, e: ast.AST, h, hcls, ccls, houter) -> List[ast.Call]:
        return [c for c in ast.walk(e) if self._is_call_of(c, h, hcls, ccls, houter)]

    def _try_stmt(self, st: ast.stmt, caller, h, hcls, ccls, houter, is_gen) -> Optional[List[ast.stmt]]:
        def is_c(x):
            return self._is_call_of(x, h, hcls, ccls, houter)

        is_cm = any((isinstance(d, ast.Name) and d.id == "contextmanager") or (isinstance(d, ast.Attribute) and d.attr == "contextmanager") for d in h.decorator_list)
        if is_cm:
            # `with H(args) as v: BODY` with H a @contextmanager generator: H's body with its `yield x` replaced by `v = x; BODY`
            if isinstance(st, ast.With) and len(st.items) == 1 and is_c(st.items[0].context_expr):
                tgt = st.items[0].optional_vars or ast.Name(id=f"_cm{self.k}", ctx=ast.Store())
                pseudo = ast.For(target=copy.deepcopy(tgt), iter=st.items[0].context_expr, body=st.body, orelse=[], type_comment=None)
                try:
                    return self._inline_generator(pseudo, caller, h, context_manager=True)
                except _Abort:
                    return None
            return None
        if is_gen:
            if isinstance(st, ast.For) and is_c(st.iter) and not st.orelse:
                try:
                    return self._inline_generator(st, caller, h)
                except _Abort:
                    return None
            return None
        if isinstance(st, ast.Expr) and is_c(st.value):
            return self._expand(st.value, caller, h, lambda e, r: [])
        if isinstance(st, (ast.Assign, ast.AnnAssign)) and st.value is not None and is_c(st.value):
            targets = st.targets if isinstance(st, ast.Assign) else [st.target]
            return self._expand(st.value, caller, h, lambda e, r: [ast.Assign(targets=copy.deepcopy(targets), value=e if e is not None else ast.Constant(None))],
                                result_names={t.id for t in targets if isinstance(t, ast.Name)})
        if isinstance(st, ast.Return) and st.value is not None and is_c(st.value):
            return self._expand(st.value, caller, h, lambda e, r: [ast.Return(value=e)], falls_off=[ast.Return(value=ast.Constant(None))])
        if isinstance(st, ast.If):
            t = st.test
            neg = False
            if isinstance(t, ast.UnaryOp) and isinstance(t.op, ast.Not):
                t, neg = t.operand, True
            if is_c(t):
                self.k += 1
                tmp = f"_inl{self.k}"

                def mk(e, r, tmp=tmp):
                    if isinstance(e, ast.Constant):
                        return [ast.Assign(targets=[ast.Name(id=tmp, ctx=ast.Store())], value=e)]
                    # a boolean result becomes a flag the path analyses can follow
                    return [ast.If(test=e if e is not None else ast.Constant(None),
                                   body=[ast.Assign(targets=[ast.Name(id=tmp, ctx=ast.Store())], value=ast.Constant(True))],
                                   orelse=[ast.Assign(targets=[ast.Name(id=tmp, ctx=ast.Store())], value=ast.Constant(False))])]
                pre = self._expand(t, caller, h, mk)
                if pre is None:
                    return None
                new_test: ast.AST = ast.Name(id=tmp, ctx=ast.Load())
                if neg:
                    new_test = ast.UnaryOp(op=ast.Not(), operand=new_test)
                st.test = new_test
                return pre + [st]
            # the call as an operand inside the test, evaluated unconditionally (`if f(H(x)):`): hoist it
            calls = self._calls_in(st.test, h, hcls, ccls, houter)
            if len(calls) == 1 and not _has(st.test, (ast.IfExp, ast.BoolOp, ast.Lambda, ast.ListComp, ast.SetComp, ast.DictComp, ast.GeneratorExp)):
                self.k += 1
                tmp = f"_inl{self.k}"
                pre = self._expand(calls[0], caller, h, lambda e, r, tmp=tmp: [ast.Assign(targets=[ast.Name(id=tmp, ctx=ast.Store())],
                                                                                           value=e if e is not None else ast.Constant(None))])
                if pre is None:
                    return None

                class R2(ast.NodeTransformer):
                    def visit_Call(s, n):
                        if n is calls[0]:
                            return ast.Name(id=tmp, ctx=ast.Load())
                        s.generic_visit(n)
                        return n
                st.test = R2().visit(st.test)
                return pre + [st]
            return None
        # the call somewhere inside a simple statement, evaluated unconditionally: hoist it
        if isinstance(st, (ast.Expr, ast.Assign, ast.AugAssign, ast.AnnAssign, ast.Return)):
            calls = self._calls_in(st, h, hcls, ccls, houter)
            if len(calls) == 1 and not _has(st, (ast.IfExp, ast.BoolOp, ast.Lambda, ast.ListComp, ast.SetComp, ast.DictComp, ast.GeneratorExp)):
                self.k += 1
                tmp = f"_inl{self.k}"
                pre = self._expand(calls[0], caller, h, lambda e, r, tmp=tmp: [ast.Assign(targets=[ast.Name(id=tmp, ctx=ast.Store())],
                                                                                           value=e if e is not None else ast.Constant(None))])
                if pre is None:
                    return None

                class R(ast.NodeTransformer):
                    def visit_Call(s, n):
                        if n is calls[0]:
                            return ast.Name(id=tmp, ctx=ast.Load())
                        s.generic_visit(n)
                        return n
                return pre + [R().visit(st)]
        return None

    # ------------------------------------------------------------------ body instantiation
    def _bind(self, call: ast.Call, caller, h: ast.FunctionDef, keep: Set[str] = frozenset()):
        params = [a.arg for a in h.args.args]
        kwonly = [a.arg for a in h.args.kwonlyargs]
        args: Dict[str, ast.AST] = {}
        pos = list(call.args)
        if any(isinstance(a, ast.Starred) for a in pos) or any(k.arg is None for k in call.keywords):
            raise _Abort()
        pnames = list(params)
        is_method_call = isinstance(call.func, ast.Attribute)
        static = any(isinstance(d, ast.Name) and d.id == "staticmethod" for d in h.decorator_list)
        if is_method_call and not static and pnames:
            args[pnames[0]] = call.func.value
            pnames = pnames[1:]
        if len(pos) > len(pnames):
            raise _Abort()
        for p, a in zip(pnames, pos):
            args[p] = a
        for k in call.keywords:
            if k.arg not in params + kwonly or k.arg in args:
                raise _Abort()
            args[k.arg] = k.value
        defaults = dict(zip(params[len(params) - len(h.args.defaults):], h.args.defaults))
        for a, d in zip(h.args.kwonlyargs, h.args.kw_defaults):
            if d is not None:
                defaults[a.arg] = d
        for p in params + kwonly:
            if p not in args:
                if p not in defaults:
                    raise _Abort()
                args[p] = defaults[p]
        body = copy.deepcopy(_body_wo_doc(h))
        assigned = {x.id for s in body for x in ast.walk(s) if isinstance(x, ast.Name) and isinstance(x.ctx, (ast.Store, ast.Del))}
        assigned |= {hd.name for s in body for hd in ast.walk(s) if isinstance(hd, ast.ExceptHandler) and hd.name}
        caller_names = _scope_names(caller) if isinstance(caller, (ast.FunctionDef, ast.AsyncFunctionDef)) else _names_in(caller)
        subst: Dict[str, ast.AST] = {}
        renames: Dict[str, str] = {}
        pre: List[ast.stmt] = []
        self.k += 1
        tag = f"__h{self.k}"
        for p, a in args.items():
            if _simple_arg(a) and p not in assigned:
                subst[p] = a
            else:
                nm = p if (p not in caller_names or (isinstance(a, ast.Name) and a.id == p)) else p + tag
                if not (isinstance(a, ast.Name) and a.id == nm):
                    pre.append(ast.Assign(targets=[ast.Name(id=nm, ctx=ast.Store())], value=copy.deepcopy(a)))
                if nm != p:
                    renames[p] = nm
        for loc in assigned - set(args):
            if loc in caller_names and loc not in keep:
                if isinstance(caller, (ast.FunctionDef, ast.AsyncFunctionDef)) and _block_local(caller, loc) and _block_local(h, loc):
                    continue  # a temporary on both sides
                renames[loc] = loc + tag
        sub = _Sub(subst, renames)
        body = [sub.visit(s) for s in body]
        return pre, body

    def _expand(self, call: ast.Call, caller, h, mk_result, falls_off: Optional[List[ast.stmt]] = None, result_names: Set[str] = frozenset()):
        pre, body = self._bind(call, caller, h, keep=set(result_names))
        out = _conv(body, mk_result)
        if falls_off is not None and not _always_terminates(body):
            out = out + falls_off
        elif falls_off is None and not _always_terminates(body) and _has(body, ast.Return):
            # a path that falls off the end yields None
            pass
        res = _drop_self_assignments(pre + out)
        return res or [ast.Pass()]

    def _inline_generator(self, loop: ast.For, caller, h, context_manager: bool = False) -> Optional[List[ast.stmt]]:
        """`for T in G(args): BODY` with G a generator of this module: G's body with every `yield e` replaced by `T = e; BODY`.
        One yield: BODY may `continue` if the yield sits in a loop of G. Several yields: BODY's `if c: ...; continue` guards are
        turned into if/else first and no other continue/break may remain; constant components of the yielded tuples (event
        flags such as `yield node, True`) are propagated into each copy of BODY and the tests on them folded. A bare `return`
        directly inside G's outermost loop becomes `break`."""
        pre, body = self._bind(loop.iter, caller, h)
        mod = ast.Module(body=body, type_ignores=[])
        ystmts = [s for s in ast.walk(mod) if isinstance(s, ast.Expr) and isinstance(s.value, ast.Yield)]
        n_y = sum(1 for n in ast.walk(mod) if isinstance(n, (ast.Yield, ast.YieldFrom)))
        if not ystmts or n_y != len(ystmts):
            return None
        # returns of the generator
        rets = [n for n in ast.walk(mod) if isinstance(n, ast.Return)]
        if any(r.value is not None for r in rets):
            return None
        if rets:
            ok = [True]

            def conv(stmts, depth):
                for i, st in enumerate(stmts):
                    if isinstance(st, ast.Return):
                        if depth == 1:
                            stmts[i] = ast.copy_location(ast.Break(), st)
                        elif depth == 0 and st is body[-1]:
                            stmts[i] = ast.copy_location(ast.Pass(), st)
                        else:
                            ok[0] = False
                        continue
                    is_loop = isinstance(st, (ast.For, ast.While))
                    for fld in ("body", "orelse", "finalbody"):
                        bb = getattr(st, fld, None)
                        if isinstance(bb, list) and bb and isinstance(bb[0], ast.stmt):
                            conv(bb, depth + 1 if (is_loop and fld == "body") else depth)
                    if isinstance(st, ast.Try):
                        for hd in st.handlers:
                            conv(hd.body, depth)
            conv(body, 0)
            if not ok[0]:
                return None
        in_loop: Dict[int, bool] = {}

        def find(stmts, depth_loop):
            for s_ in stmts:
                if any(s_ is y for y in ystmts):
                    in_loop[id(s_)] = depth_loop
                for fld in ("body", "orelse", "finalbody"):
                    bb = getattr(s_, fld, None)
                    if isinstance(bb, list) and bb and isinstance(bb[0], ast.stmt):
                        find(bb, depth_loop or (isinstance(s_, (ast.For, ast.While)) and fld == "body"))
                if isinstance(s_, ast.Try):
                    for hd in s_.handlers:
                        find(hd.body, depth_loop)
        find(body, False)
        lb = loop.body
        if context_manager:
            # break / continue / return of the body belong to the caller and stay there: the yield must not sit in a loop of H
            if len(ystmts) != 1 or in_loop.get(id(ystmts[0])):
                return None
        elif len(ystmts) == 1:
            if _has(lb, ast.Break) or (not in_loop.get(id(ystmts[0])) and _has(lb, ast.Continue)):
                return None
        else:
            lb = _uncontinue(copy.deepcopy(lb))
            if lb is None or _has(lb, (ast.Break, ast.Continue)):
                return None
        repl: Dict[int, List[ast.stmt]] = {}
        for y in ystmts:
            val = y.value.value if y.value.value is not None else ast.Constant(None)
            bcopy = copy.deepcopy(lb) if len(ystmts) > 1 else lb
            tgt = copy.deepcopy(loop.target)
            consts: Dict[str, ast.Constant] = {}
            if isinstance(tgt, ast.Tuple) and isinstance(val, ast.Tuple) and len(tgt.elts) == len(val.elts) and len(ystmts) > 1:
                for t, v in zip(tgt.elts, val.elts):
                    if isinstance(t, ast.Name) and isinstance(v, ast.Constant):
                        consts[t.id] = v
            if consts and not any(isinstance(x, ast.Name) and x.id in consts and isinstance(x.ctx, ast.Store) for s_ in bcopy for x in ast.walk(s_)):
                bcopy = _fold_consts(bcopy, consts)
            for t in ast.walk(tgt):
                if isinstance(t, (ast.Name, ast.Tuple, ast.List)):
                    t.ctx = ast.Store()
            repl[id(y)] = [ast.Assign(targets=[tgt], value=val)] + (bcopy or [ast.Pass()])

        class R(ast.NodeTransformer):
            def generic_visit(s, node):
                super().generic_visit(node)
                for fld in ("body", "orelse", "finalbody"):
                    bb = getattr(node, fld, None)
                    if isinstance(bb, list):
                        out = []
                        for x in bb:
                            out += repl.get(id(x), [x])
                        if len(out) != len(bb) or any(a is not c for a, c in zip(out, bb)):
                            bb[:] = out
                return node
        R().visit(mod)
        return pre + mod.body


def _own_continue(node) -> bool:
    """a `continue` that belongs to the loop the statement sits in (not to a loop nested in the statement)"""
    if isinstance(node, ast.Continue):
        return True
    if isinstance(node, (ast.For, ast.While, ast.FunctionDef, ast.Lambda)):
        return any(_own_continue(x) for x in getattr(node, "orelse", []))
    return any(_own_continue(c) for c in ast.iter_child_nodes(node))


def _falls(stmts: List[ast.stmt]) -> bool:
    if not stmts:
        return True
    last = stmts[-1]
    if isinstance(last, (ast.Continue, ast.Return, ast.Raise, ast.Break)):
        return False
    if isinstance(last, ast.If) and last.orelse:
        return _falls(last.body) or _falls(last.orelse)
    return True


def _uncontinue(stmts: List[ast.stmt]) -> Optional[List[ast.stmt]]:
    """the statement sequence of a loop body without `continue`: `if c: A; continue` followed by REST becomes
    `if c: A else: REST`, at any nesting depth of ifs (REST is copied into every arm that can fall through). None if a
    `continue` sits somewhere this does not reach (inside try / with)."""
    out: List[ast.stmt] = []
    for i, st in enumerate(stmts):
        if isinstance(st, ast.Continue):
            return out
        if not _own_continue(st):
            out.append(st)
            continue
        if not isinstance(st, ast.If):
            return None
        rest = stmts[i + 1:]
        body = _uncontinue(list(st.body) + (copy.deepcopy(rest) if _falls(st.body) else []))
        orelse = _uncontinue(list(st.orelse) + (copy.deepcopy(rest) if _falls(st.orelse) else []))
        if body is None or orelse is None:
            return None
        if not body and orelse:
            # `if c: continue` + REST  ==  `if not c: REST`
            t = st.test.operand if isinstance(st.test, ast.UnaryOp) and isinstance(st.test.op, ast.Not) else ast.UnaryOp(op=ast.Not(), operand=st.test)
            out.append(ast.copy_location(ast.If(test=t, body=orelse, orelse=[]), st))
        else:
            out.append(ast.copy_location(ast.If(test=st.test, body=body or [ast.Pass()], orelse=orelse), st))
        return out
    return out


def _fold_consts(stmts: List[ast.stmt], consts: Dict[str, ast.Constant]) -> List[ast.stmt]:
    """substitute names that are known constants and fold `if <constant>:` / `not <constant>`"""
    class S(ast.NodeTransformer):
        def visit_Name(self, n):
            if n.id in consts and isinstance(n.ctx, ast.Load):
                return ast.copy_location(copy.deepcopy(consts[n.id]), n)
            return n

        def visit_UnaryOp(self, n):
            self.generic_visit(n)
            if isinstance(n.op, ast.Not) and isinstance(n.operand, ast.Constant):
                return ast.copy_location(ast.Constant(value=not n.operand.value), n)
            return n

    def fold(lst):
        out = []
        for st in lst:
            st = S().visit(st)
            for fld in ("body", "orelse", "finalbody"):
                bb = getattr(st, fld, None)
                if isinstance(bb, list) and bb and isinstance(bb[0], ast.stmt):
                    setattr(st, fld, fold(bb) or ([ast.Pass()] if fld == "body" else []))
            if isinstance(st, ast.If) and isinstance(st.test, ast.Constant):
                out += (st.body if st.test.value else st.orelse)
                continue
            out.append(st)
        return [x for x in out if not isinstance(x, ast.Pass)] or []
    return fold(stmts)


def renumber(fn: ast.AST) -> None:
    """After inlining, the statements of a function carry line numbers from two places (the caller and the helper's
    definition). Rules that order things by line need them monotonic in execution order: every statement gets a fresh
    number (fn.lineno + running index); the original number is kept in `_orig_lineno` for reports (Func.loc)."""
    k = [getattr(fn, "lineno", 1)]

    def stamp(node, ln):
        for x in ast.walk(node):
            if hasattr(x, "lineno"):
                if not hasattr(x, "_orig_lineno"):
                    x._orig_lineno = x.lineno
                x.lineno = ln
                x.end_lineno = ln

    def visit(stmts):
        for st in stmts:
            k[0] += 1
            ln = k[0]
            # header expressions of compound statements, whole simple statements
            if isinstance(st, (ast.If, ast.While)):
                stamp(st.test, ln)
            elif isinstance(st, (ast.For, ast.AsyncFor)):
                stamp(st.target, ln); stamp(st.iter, ln)
            elif isinstance(st, (ast.With, ast.AsyncWith)):
                for it in st.items:
                    stamp(it, ln)
            elif isinstance(st, (ast.FunctionDef, ast.AsyncFunctionDef, ast.ClassDef, ast.Try)):
                pass
            else:
                stamp(st, ln)
            if not hasattr(st, "_orig_lineno"):
                st._orig_lineno = getattr(st, "lineno", ln)
            st.lineno = ln
            st.end_lineno = ln
            for fld in ("body", "orelse", "finalbody"):
                b = getattr(st, fld, None)
                if isinstance(b, list) and b and isinstance(b[0], ast.stmt) and not isinstance(st, (ast.FunctionDef, ast.AsyncFunctionDef, ast.ClassDef)):
                    visit(b)
            if isinstance(st, ast.Try):
                for h in st.handlers:
                    k[0] += 1
                    if not hasattr(h, "_orig_lineno"):
                        h._orig_lineno = getattr(h, "lineno", k[0])
                    h.lineno = k[0]
                    visit(h.body)

    visit(fn.body)


def inline_new_helpers(tree: ast.Module, modname: str) -> int:
    try:
        return Inliner(tree, modname).run()
    except RecursionError:
        return 0


def inlined_function(module_tree: ast.Module, caller_qual: str, depth: int = 3) -> ast.AST:
    """a copy of the named function with *every* plain helper of its own module that it calls (nested functions, module-level
    functions, methods of its class) inlined, whether or not the reference tree knows them - for rules that state an effect
    of the function as a whole (`resetting X clears ...`) and must not care how the work is split into helpers"""
    tree = copy.deepcopy(module_tree)
    inl = Inliner(tree, "?")
    for _ in range(depth):
        quals = all_function_quals(tree)
        if caller_qual not in quals:
            raise KeyError(caller_qual)
        caller, ccls, _ = quals[caller_qual]
        before = inl.count
        called = {c.func.id for c in ast.walk(caller) if isinstance(c, ast.Call) and isinstance(c.func, ast.Name)} | \
                 {c.func.attr for c in ast.walk(caller) if isinstance(c, ast.Call) and isinstance(c.func, ast.Attribute) and isinstance(c.func.value, ast.Name) and c.func.value.id == "self"}
        for q, (h, hcls, houter) in quals.items():
            if h is caller or h.name not in called or not _eligible(h):
                continue
            try:
                inl._inline_into(caller, h, hcls, ccls, houter)
            except _Abort:
                pass
        if inl.count == before:
            break
    ast.fix_missing_locations(tree)
    return all_function_quals(tree)[caller_qual][0]
