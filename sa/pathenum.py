"""Bounded path enumeration through a statement list with boolean-flag tracking.

Loops are taken 0..max_iter times. Locals / self.attr locations assigned boolean constants, `not <loc>` or
another tracked location are tracked per path and used to prune infeasible branches (this makes
use_defaults / has_active_range / self._has_active_indirect_set / value_is_default path-sensitive).
A callback classifies statements into events. No values other than booleans are interpreted."""
from __future__ import annotations

import ast
from typing import Callable, Dict, List, Optional, Tuple

from .flow import AnalysisError

NORM, BRK, CONT, RET, RAISE = "norm", "brk", "cont", "ret", "raise"


class Path:
    __slots__ = ("flags", "events", "conds", "loops")

    def __init__(self, flags=None, events=None, conds=None, loops=None):
        self.flags: Dict[str, bool] = dict(flags or {})
        self.events: List[Tuple[str, int, object]] = list(events or [])
        self.conds: List[Tuple[str, bool, int, ast.AST]] = list(conds or [])
        self.loops: List[Tuple[str, int]] = list(loops or [])

    def copy(self) -> "Path":
        return Path(self.flags, self.events, self.conds, self.loops)

    def names(self) -> List[str]:
        return [e[0] for e in self.events]


def loc(e: ast.AST) -> Optional[str]:
    if isinstance(e, ast.Name):
        return e.id
    if isinstance(e, ast.Attribute):
        b = loc(e.value)
        return None if b is None else f"{b}.{e.attr}"
    return None


def evalflag(e: ast.AST, p: Path) -> Optional[bool]:
    if isinstance(e, ast.Constant) and isinstance(e.value, bool):
        return e.value
    l = loc(e)
    if l is not None and l in p.flags:
        return p.flags[l]
    if isinstance(e, ast.UnaryOp) and isinstance(e.op, ast.Not):
        v = evalflag(e.operand, p)
        return None if v is None else (not v)
    if isinstance(e, ast.BoolOp):
        vs = [evalflag(x, p) for x in e.values]
        if isinstance(e.op, ast.And):
            if any(v is False for v in vs):
                return False
            if all(v is True for v in vs):
                return True
            return None
        if any(v is True for v in vs):
            return True
        if all(v is False for v in vs):
            return False
        return None
    return None


def assume(e: ast.AST, pol: bool, p: Path) -> None:
    l = loc(e)
    if l is not None:
        p.flags[l] = pol
        return
    if isinstance(e, ast.UnaryOp) and isinstance(e.op, ast.Not):
        assume(e.operand, not pol, p)
        return
    if isinstance(e, ast.BoolOp):
        if isinstance(e.op, ast.And) and pol:
            for x in e.values:
                assume(x, True, p)
        elif isinstance(e.op, ast.Or) and not pol:
            for x in e.values:
                assume(x, False, p)
        elif isinstance(e.op, ast.And) and not pol:
            # exactly one unknown conjunct and all others known true -> that one is false
            unk = [x for x in e.values if evalflag(x, p) is None]
            if len(unk) == 1 and all(evalflag(x, p) is True for x in e.values if x is not unk[0]):
                assume(unk[0], False, p)
        elif isinstance(e.op, ast.Or) and pol:
            unk = [x for x in e.values if evalflag(x, p) is None]
            if len(unk) == 1 and all(evalflag(x, p) is False for x in e.values if x is not unk[0]):
                assume(unk[0], True, p)


class Enumerator:
    def __init__(self, on_stmt: Callable[[ast.stmt, Path, List[ast.AST]], None], max_iter: int = 1,
                 max_paths: int = 200000, on_cond: Optional[Callable[[ast.AST, bool, Path], None]] = None):
        self.on_stmt = on_stmt
        self.on_cond = on_cond
        self.max_iter = max_iter
        self.max_paths = max_paths
        self.count = 0

    def run(self, stmts: List[ast.stmt], init: Optional[Path] = None) -> List[Tuple[Path, str]]:
        return self.block(stmts, [init or Path()], [])

    def block(self, stmts, paths: List[Path], loops: List[ast.AST]) -> List[Tuple[Path, str]]:
        out: List[Tuple[Path, str]] = []
        cur: List[Tuple[Path, str]] = [(p, NORM) for p in paths]
        for st in stmts:
            nxt: List[Tuple[Path, str]] = []
            for p, status in cur:
                if status != NORM:
                    out.append((p, status))
                else:
                    nxt.extend(self.stmt(st, p, loops))
            cur = nxt
            if len(cur) + len(out) > self.max_paths:
                raise AnalysisError(f"path explosion (> {self.max_paths}) at line {st.lineno}")
        return out + cur

    def _assign_flags(self, st: ast.stmt, p: Path):
        tgts: List[ast.AST] = []
        val: Optional[ast.AST] = None
        if isinstance(st, ast.Assign):
            tgts, val = list(st.targets), st.value
        elif isinstance(st, ast.AnnAssign):
            tgts, val = [st.target], st.value
        elif isinstance(st, ast.AugAssign):
            tgts = [st.target]
        flat: List[ast.AST] = []
        for t in tgts:
            flat += list(t.elts) if isinstance(t, (ast.Tuple, ast.List)) else [t]
        for t in flat:
            l = loc(t)
            if l is None:
                continue
            v = evalflag(val, p) if val is not None and len(flat) == len(tgts) else None
            ok_shape = val is not None and isinstance(val, (ast.Constant, ast.UnaryOp, ast.Name, ast.Attribute, ast.BoolOp))
            if v is not None and ok_shape:
                p.flags[l] = v
            else:
                p.flags.pop(l, None)

    def stmt(self, st: ast.stmt, p: Path, loops) -> List[Tuple[Path, str]]:
        if isinstance(st, (ast.Assign, ast.AnnAssign, ast.AugAssign, ast.Expr, ast.Pass, ast.Delete, ast.Assert,
                           ast.Import, ast.ImportFrom, ast.Global, ast.Nonlocal, ast.FunctionDef, ast.ClassDef)):
            self._assign_flags(st, p)
            self.on_stmt(st, p, loops)  # may override flags (e.g. "result is now set")
            return [(p, NORM)]
        if isinstance(st, ast.If):
            v = evalflag(st.test, p)
            res: List[Tuple[Path, str]] = []
            for pol, body in ((True, st.body), (False, st.orelse)):
                if v is not None and v != pol:
                    continue
                q = p.copy()
                assume(st.test, pol, q)
                q.conds.append((ast.unparse(st.test), pol, st.lineno, st.test))
                if self.on_cond:
                    self.on_cond(st.test, pol, q)
                res += self.block(body, [q], loops)
            return res
        if isinstance(st, (ast.For, ast.While)):
            return self.loop(st, p, loops)
        if isinstance(st, ast.Break):
            return [(p, BRK)]
        if isinstance(st, ast.Continue):
            return [(p, CONT)]
        if isinstance(st, ast.Return):
            self.on_stmt(st, p, loops)
            return [(p, RET)]
        if isinstance(st, ast.Raise):
            self.on_stmt(st, p, loops)
            return [(p, RAISE)]
        if isinstance(st, ast.With):
            self.on_stmt(st, p, loops)
            return self.block(st.body, [p], loops)
        if isinstance(st, ast.Try):
            # normal execution of the body; each handler entered from the state before the body
            res = []
            for q, status in self.block(st.body, [p.copy()], loops):
                if status == NORM:
                    res += self.block(st.orelse, [q], loops) if st.orelse else [(q, NORM)]
                else:
                    res.append((q, status))
            for h in st.handlers:
                q = p.copy()
                q.conds.append((f"except {ast.unparse(h.type) if h.type else ''}", True, h.lineno, h))
                res += self.block(h.body, [q], loops)
            if st.finalbody:
                fin = []
                for q, status in res:
                    for q2, s2 in self.block(st.finalbody, [q], loops):
                        fin.append((q2, status if s2 == NORM else s2))
                res = fin
            return res
        raise AnalysisError(f"unsupported statement {type(st).__name__} at line {st.lineno}")

    def loop(self, st, p: Path, loops) -> List[Tuple[Path, str]]:
        res: List[Tuple[Path, str]] = []
        head = ast.unparse(st.iter) if isinstance(st, ast.For) else "while " + ast.unparse(st.test)
        frontier = [p]
        for it in range(self.max_iter + 1):
            nxt: List[Path] = []
            for q in frontier:
                # exit the loop here (exhausted) -> else clause
                e = q.copy()
                e.loops.append((head, it))
                if it == 0:
                    e.events.append(("loop:" + head, st.lineno, 0))
                if isinstance(st, ast.While):
                    v = evalflag(st.test, e)
                    if v is True and it < self.max_iter:
                        pass
                    else:
                        if v is not True:
                            assume(st.test, False, e)
                            res += self.block(st.orelse, [e], loops)
                else:
                    res += self.block(st.orelse, [e], loops)
                if it == self.max_iter:
                    continue
                b = q.copy()
                if it == 0:
                    b.events.append(("loop:" + head, st.lineno, 1))
                if isinstance(st, ast.While):
                    v = evalflag(st.test, b)
                    if v is False:
                        continue
                    assume(st.test, True, b)
                else:
                    # loop targets are rebound
                    for t in ast.walk(st.target):
                        if isinstance(t, ast.Name):
                            b.flags.pop(t.id, None)
                for r, status in self.block(st.body, [b], loops + [st]):
                    if status == BRK:
                        res.append((r, NORM))
                    elif status in (NORM, CONT):
                        nxt.append(r)
                    else:
                        res.append((r, status))
            frontier = nxt
            if not frontier:
                break
        return res
