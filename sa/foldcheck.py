"""Soundness of constant-folding rewrite rules over the two-point Kconfig algebra {n=0, y=2}.

A folding function is abstracted as an ordered list of (guard, result) rules extracted from its
`if <guard>: return <result>` chain plus the final return. Guards are evaluated on *abstract operands*
by their own semantics (identity with the y/n constants, equality of operands, type tests); a rule set is
sound iff for every abstract operand combination and every valuation of the free operands the selected
result has the value op(e1, e2). This is a finite table check on the rules, not an execution."""
from __future__ import annotations

import ast
import itertools
from typing import Callable, Dict, List, Optional, Tuple

from .flow import AnalysisError

# abstract operand kinds: 'y' (the constant y object), 'n' (the constant n), 's1'/'s2' (distinct free symbols),
# 'c' (a compound sub-expression)
KINDS = ["y", "n", "s1", "s2", "c"]


class Operand:
    def __init__(self, kind: str):
        self.kind = kind

    def value(self, env: Dict[str, int]) -> int:
        if self.kind == "y":
            return 2
        if self.kind == "n":
            return 0
        return env[self.kind]


def chain_rules(body: List[ast.stmt]) -> List[Tuple[Optional[ast.AST], ast.AST, int]]:
    """[(guard|None, result_expr, lineno)] from a flat `if g: return r` ... `return r` statement list."""
    rules: List[Tuple[Optional[ast.AST], ast.AST, int]] = []
    for st in body:
        if isinstance(st, ast.Expr) and isinstance(st.value, ast.Constant):
            continue
        if isinstance(st, ast.If) and len(st.body) == 1 and isinstance(st.body[0], ast.Return) and not st.orelse:
            rules.append((st.test, st.body[0].value, st.lineno))
        elif isinstance(st, ast.Return):
            rules.append((None, st.value, st.lineno))
            break
        else:
            raise AnalysisError(f"unrecognised statement in folding chain at line {st.lineno}: {type(st).__name__}")
    return rules


def eval_guard(g: ast.AST, ops: Dict[str, Operand], const_names: Dict[str, str]) -> bool:
    """const_names maps source text of the constants ('self.y' -> 'y', 'n' -> 'n', ...)."""
    if isinstance(g, ast.Constant) and isinstance(g.value, bool):
        return g.value
    if isinstance(g, ast.BoolOp):
        vs = [eval_guard(v, ops, const_names) for v in g.values]
        return all(vs) if isinstance(g.op, ast.And) else any(vs)
    if isinstance(g, ast.UnaryOp) and isinstance(g.op, ast.Not):
        return not eval_guard(g.operand, ops, const_names)
    if isinstance(g, ast.Compare) and len(g.ops) == 1:
        l, r = ast.unparse(g.left), ast.unparse(g.comparators[0])

        def ident(t: str) -> Optional[str]:
            if t in ops:
                return ops[t].kind
            if t in const_names:
                return const_names[t]
            return None

        a, b = ident(l), ident(r)
        op = g.ops[0]
        if a is not None and b is not None:
            same = a == b and a != "c"  # two compounds are never identical objects; equal only if structurally equal
            if isinstance(op, (ast.Is, ast.Eq)):
                return same
            if isinstance(op, (ast.IsNot, ast.NotEq)):
                return not same
        # type(x) is / is not type(y): operands of relations are always Symbols -> same type unless compound
        if (isinstance(g.left, ast.Call) and ast.unparse(g.left.func) == "type"
                and isinstance(g.comparators[0], ast.Call) and ast.unparse(g.comparators[0].func) == "type"):
            ta = ops.get(ast.unparse(g.left.args[0]))
            tb = ops.get(ast.unparse(g.comparators[0].args[0]))
            if ta is not None and tb is not None:
                same_t = (ta.kind == "c") == (tb.kind == "c")
                return same_t if isinstance(op, ast.Is) else (not same_t)
    raise AnalysisError(f"guard not understood by the folding checker: {ast.unparse(g)}")


def check_binary_chain(rules, e1: str, e2: str, const_names: Dict[str, str], op_name: str,
                       opfun: Callable[[int, int], int], kinds=KINDS) -> List[Dict]:
    """Returns a list of counter-examples (empty = sound)."""
    bad: List[Dict] = []
    for k1, k2 in itertools.product(kinds, kinds):
        if k1 == k2 == "s2":
            continue
        ops = {e1: Operand(k1), e2: Operand(k2)}
        chosen = None
        for g, res, ln in rules:
            if g is None or eval_guard(g, ops, const_names):
                chosen = (res, ln)
                break
        if chosen is None:
            raise AnalysisError("folding chain has no final return")
        res, ln = chosen
        free = sorted({k for k in (k1, k2) if k in ("s1", "s2", "c")})
        relation = op_name in ("EQUAL", "UNEQUAL")
        # a relation compares *values as text*: a free symbol may be a bool (truth 0/2, text n/y) or a non-bool option
        # (truth always 0) whose text happens to be "y", "n" or something else
        domain = [(0, "n"), (2, "y")] + ([(0, "y"), (0, "n"), (0, "other")] if relation else [])
        for vals in itertools.product(domain, repeat=len(free)):
            tenv = dict(zip(free, vals))
            env = {k: v[0] for k, v in tenv.items()}
            if relation:
                def sval(o, kind_env=tenv):
                    if o.kind == "y":
                        return "y"
                    if o.kind == "n":
                        return "n"
                    t = kind_env[o.kind][1]
                    return t if t != "other" else "other:" + o.kind
                a_, b_ = sval(ops[e1]), sval(ops[e2])
                want = (2 if a_ == b_ else 0) if op_name == "EQUAL" else (2 if a_ != b_ else 0)
            else:
                want = opfun(ops[e1].value(env), ops[e2].value(env))
            rt = ast.unparse(res)
            if rt in ops:
                got = ops[rt].value(env)
            elif rt in const_names:
                got = 2 if const_names[rt] == "y" else 0
            elif isinstance(res, ast.Tuple):
                got = want  # the unsimplified (op, e1, e2) node
                elts = [ast.unparse(x) for x in res.elts]
                if len(elts) != 3 or elts[1] != e1 or elts[2] != e2:
                    if len(elts) == 3 and elts[1] == e2 and elts[2] == e1:
                        got = want  # commutative operators
                    else:
                        got = -1
            else:
                raise AnalysisError(f"result not understood by the folding checker: {rt}")
            if got != want:
                bad.append({"operands": (k1, k2), "valuation": env, "rule_line": ln, "result": rt,
                            "expected": want, "got": got, "op": op_name})
                break
    return bad


# --------------------------------------------------------------------------- folding of string predicates over a witness
class Unfoldable(Exception):
    pass


_STR_METHODS = {"startswith", "endswith", "isspace", "strip", "rstrip", "lstrip", "split", "lower", "upper", "isdigit", "isalpha", "isalnum",
                "isupper", "islower", "replace", "find", "count", "splitlines", "partition", "rpartition", "title", "expandtabs"}


def fold_str_expr(e: ast.AST, env: dict):
    """value of an expression over string constants and the witness values in `env`: literals, the str methods that have no
    side effect, len(), not/and/or, comparisons, constant subscripts and slices. Anything else raises Unfoldable. This is
    constant folding of the source's own test on a fixed input, not an execution of the function it stands in."""
    if isinstance(e, ast.Constant):
        return e.value
    if isinstance(e, ast.Name):
        if e.id in env:
            return env[e.id]
        raise Unfoldable(e.id)
    if isinstance(e, ast.Attribute) and ast.unparse(e) in env:
        return env[ast.unparse(e)]
    if isinstance(e, ast.Tuple):
        return tuple(fold_str_expr(x, env) for x in e.elts)
    if isinstance(e, ast.List):
        return [fold_str_expr(x, env) for x in e.elts]
    if isinstance(e, ast.UnaryOp) and isinstance(e.op, ast.Not):
        return not fold_str_expr(e.operand, env)
    if isinstance(e, ast.UnaryOp) and isinstance(e.op, ast.USub) and isinstance(e.operand, ast.Constant) and isinstance(e.operand.value, int):
        return -e.operand.value
    if isinstance(e, ast.BoolOp):
        if isinstance(e.op, ast.And):
            v = True
            for x in e.values:
                v = fold_str_expr(x, env)
                if not v:
                    return v
            return v
        v = False
        for x in e.values:
            v = fold_str_expr(x, env)
            if v:
                return v
        return v
    if isinstance(e, ast.Compare) and len(e.ops) == 1:
        l, r = fold_str_expr(e.left, env), fold_str_expr(e.comparators[0], env)
        op = e.ops[0]
        try:
            if isinstance(op, ast.Eq):
                return l == r
            if isinstance(op, ast.NotEq):
                return l != r
            if isinstance(op, ast.In):
                return l in r
            if isinstance(op, ast.NotIn):
                return l not in r
            if isinstance(op, ast.Lt):
                return l < r
            if isinstance(op, ast.LtE):
                return l <= r
            if isinstance(op, ast.Gt):
                return l > r
            if isinstance(op, ast.GtE):
                return l >= r
        except TypeError:
            raise Unfoldable("comparison")
        raise Unfoldable("comparison operator")
    if isinstance(e, ast.Call):
        if isinstance(e.func, ast.Name) and e.func.id == "len" and len(e.args) == 1 and not e.keywords:
            return len(fold_str_expr(e.args[0], env))
        if ast.unparse(e.func) in ("os.path.basename", "basename") and len(e.args) == 1 and not e.keywords:
            v = fold_str_expr(e.args[0], env)
            return v.rsplit("/", 1)[-1] if isinstance(v, str) else (_ for _ in ()).throw(Unfoldable("basename"))
        if ast.unparse(e.func) in ("os.path.dirname", "dirname") and len(e.args) == 1 and not e.keywords:
            v = fold_str_expr(e.args[0], env)
            return (v.rsplit("/", 1)[0] if "/" in v else "") if isinstance(v, str) else (_ for _ in ()).throw(Unfoldable("dirname"))
        if isinstance(e.func, ast.Attribute) and e.func.attr in _STR_METHODS and not e.keywords:
            recv = fold_str_expr(e.func.value, env)
            if not isinstance(recv, str) and not (isinstance(recv, (list, tuple)) and e.func.attr in ("count",)):
                raise Unfoldable("method on a non-string")
            args = [fold_str_expr(a, env) for a in e.args]
            return getattr(recv, e.func.attr)(*args)
        raise Unfoldable(ast.unparse(e.func))
    if isinstance(e, ast.Subscript):
        v = fold_str_expr(e.value, env)
        s = e.slice
        if isinstance(s, ast.Slice):
            lo = fold_str_expr(s.lower, env) if s.lower else None
            hi = fold_str_expr(s.upper, env) if s.upper else None
            st = fold_str_expr(s.step, env) if s.step else None
            return v[lo:hi:st]
        try:
            return v[fold_str_expr(s, env)]
        except (IndexError, KeyError, TypeError):
            raise Unfoldable("subscript")
    if isinstance(e, ast.BinOp) and isinstance(e.op, ast.Add):
        return fold_str_expr(e.left, env) + fold_str_expr(e.right, env)
    raise Unfoldable(type(e).__name__)
