"""Guards implied by where a value can come from (value provenance over reaching assignments)."""
from __future__ import annotations

import ast
from typing import Dict, List, Optional, Set, Tuple

from .flow import Flow, Resolver, canon_atom, decompose


def parse_key(k: str) -> ast.AST:
    """a guard key (canonical text over access paths, where `[*]` stands for `any element`) back as an expression"""
    try:
        return ast.parse(k.replace("[*]", "[_STAR_]"), mode="eval").body
    except SyntaxError:
        return ast.Name(id=k, ctx=ast.Load())



# --------------------------------------------------------------------------- guards implied by where a truthy value can come from
def _block_of(parents: Dict[int, ast.AST], node: ast.AST):
    par = parents.get(id(node))
    if par is None:
        return None, None, None
    for fld in ("body", "orelse", "finalbody"):
        b = getattr(par, fld, None)
        if isinstance(b, list) and any(x is node for x in b):
            return par, b, next(i for i, x in enumerate(b) if x is node)
    if isinstance(par, ast.Try):
        for h in par.handlers:
            if any(x is node for x in h.body):
                return par, h.body, next(i for i, x in enumerate(h.body) if x is node)
    return par, None, None


def reaching_assignments(fn: ast.AST, node: ast.AST, var: str) -> List[ast.Assign]:
    """the assignments `var = ...` that can provide the value of `var` at `node`: walking outwards from the node, every
    assignment nested in an earlier sibling statement, up to and including the first *unconditional* one (a sibling that is
    itself the assignment). Loop-carried values are not followed (callers use it for per-iteration locals)."""
    parents: Dict[int, ast.AST] = {}
    for x in ast.walk(fn):
        for c in ast.iter_child_nodes(x):
            parents[id(c)] = x

    def assigns_in(st):
        return [n for n in ast.walk(st) if isinstance(n, ast.Assign) and any(isinstance(t, ast.Name) and t.id == var for tt in n.targets for t in ast.walk(tt))]
    out: List[ast.Assign] = []
    cur = node
    while cur is not fn and cur is not None:
        par, b, idx = _block_of(parents, cur)
        if b is not None:
            for st in reversed(b[:idx]):
                if isinstance(st, ast.Assign) and assigns_in(st):
                    out.append(st)
                    return out
                out += assigns_in(st)
        cur = par
    return out


def _may(v: ast.AST, want: str) -> Optional[bool]:
    """can the expression have a value of the wanted kind (`truthy`, `falsy`, `none`, `notnone`)? None = unknown (yes)"""
    if isinstance(v, ast.Constant):
        c = v.value
        return {"truthy": bool(c), "falsy": not c, "none": c is None, "notnone": c is not None}[want]
    if isinstance(v, (ast.List, ast.Tuple, ast.Dict, ast.Set, ast.JoinedStr)):
        empty = not (getattr(v, "elts", None) or getattr(v, "keys", None) or getattr(v, "values", None))
        return {"truthy": not empty, "falsy": empty, "none": False, "notnone": True}[want]
    return None


def effective_guards(fl: Flow, res: Resolver, fn: ast.AST, node: ast.AST, depth: int = 3) -> Set[Tuple[str, bool]]:
    """guards at `node` plus, for every local whose truthiness / None-ness is known there, the guards common to all
    reaching assignments that can have given it such a value (`x = None; if c: x = f(); if x: <node>` - c holds at <node>;
    `e = None` in the last arm of a chain, `if e is None: <node>` - the tests of that arm hold at <node>). Facts that
    mention the local itself are not carried over."""
    gs: Set[Tuple[str, bool]] = set(fl.guards_at(node) or ())
    seen: Set[Tuple[str, bool]] = set()
    for _ in range(depth):
        added = False
        for key, pol in sorted(gs):
            if (key, pol) in seen:
                continue
            e = parse_key(key)
            if isinstance(e, ast.Name):
                var, want = e.id, ("truthy" if pol else "falsy")
            elif isinstance(e, ast.Compare) and len(e.ops) == 1 and isinstance(e.ops[0], ast.Is) and isinstance(e.left, ast.Name) \
                    and isinstance(e.comparators[0], ast.Constant) and e.comparators[0].value is None:
                var, want = e.left.id, ("none" if pol else "notnone")
            else:
                continue
            seen.add((key, pol))
            defs = reaching_assignments(fn, node, var)
            if not defs:
                continue
            cands: List[Set[Tuple[str, bool]]] = []
            alias_facts: Set[Tuple[str, bool]] = set()
            for d in defs:
                if not (len(d.targets) == 1 and isinstance(d.targets[0], ast.Name)):
                    cands.append(set())
                    continue
                base = set(fl.guards_at(d) or ())
                stack = [(d.value, set())]
                while stack:
                    v, extra = stack.pop()
                    if isinstance(v, ast.IfExp):
                        stack.append((v.body, extra | {canon_atom(res, a, p) for a, p in decompose(v.test, True)}))
                        stack.append((v.orelse, extra | {canon_atom(res, a, p) for a, p in decompose(v.test, False)}))
                        continue
                    if _may(v, want) is False:
                        continue
                    facts = base | extra
                    # `x = y`: what is known about y at the assignment is known about x afterwards
                    if isinstance(v, (ast.Name, ast.Attribute, ast.Subscript)):
                        vt = canon_atom(res, v, True)[0]
                        vraw = ast.unparse(v)
                        import re as _re
                        moved = set()
                        for k, p in facts:
                            for t in {vt, vraw}:
                                if _re.search(r"(?<![\w.])" + _re.escape(t) + r"(?![\w(])", k):
                                    moved.add((_re.sub(r"(?<![\w.])" + _re.escape(t) + r"(?![\w(])", var, k), p))
                        facts = facts | moved
                        alias_facts |= moved
                    cands.append(facts)
            if not cands:
                continue
            common = set.intersection(*cands)
            new = {(k, p) for k, p in common if (k, p) in alias_facts or var not in {x.id for x in ast.walk(parse_key(k)) if isinstance(x, ast.Name)}}
            if new - gs:
                gs |= new
                added = True
        if not added:
            break
    return gs
