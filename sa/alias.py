"""Inlining of new local aliases (in memory only).

`choice = self.choice`, `make_and = self._make_and`, `text, cond = node.prompt` - a local that merely names an attribute
chain (or, for a tuple target, its elements) is the product of an `introduce local alias` refactoring. The rules read the
reference spelling (`self.choice`, `self._make_and(...)`, `node.prompt[1]`), so an alias the reference tree does not know
(its defining signature is not in localsig.json for that function) is substituted back into its uses.

An assignment `v = <chain>` is inlined into the statements that follow it in the same block, up to the first statement
that rebinds the chain's base name or stores to an attribute named like one of the chain's attributes (the statement that
performs such a store may itself still read the alias on its right-hand side: the right-hand side is evaluated first).
The alias is removed only if every read of `v` in the function is covered that way; otherwise nothing is changed. Calls
in between are assumed not to rebind the aliased attribute (an alias that exists to keep a value across such a call is a
carry, not an explaining alias; the reference tree has none, and a rule that is sensitive to it reads the attribute)."""
from __future__ import annotations

import ast
import copy
from typing import Dict, List, Optional, Set, Tuple

from . import localsig

_BLOCKS = ("body", "orelse", "finalbody")


def _chain(e: ast.AST, plain: bool = False) -> Optional[Tuple[str, Set[str]]]:
    """(base name, attribute names) of a pure attribute / constant-subscript chain, or of a comparison of such a chain
    with constants (`version >= 3`: an explaining boolean)"""
    if isinstance(e, ast.Compare) and all(isinstance(c, ast.Constant) for c in e.comparators) and not isinstance(e.left, ast.Name):
        return _chain(e.left, plain)
    attrs: Set[str] = set()
    n = 0
    if isinstance(e, ast.Call) and isinstance(e.func, ast.Attribute) and e.func.attr in ("strip", "lstrip", "rstrip", "lower", "upper") and not e.args and not e.keywords:
        # a side-effect-free text method of a chain / local (`stripped = line.strip()`)
        inner = _chain(e.func.value, plain=True)
        return (inner[0], inner[1] | {"()"}) if inner else None
    while True:
        if isinstance(e, ast.Attribute):
            attrs.add(e.attr)
            e = e.value
            n += 1
        elif isinstance(e, ast.Subscript) and isinstance(e.slice, ast.Constant):
            attrs.add(f"[{e.slice.value!r}]")
            e = e.value
            n += 1
        elif isinstance(e, ast.Name):
            return (e.id, attrs) if (n or plain) else None
        else:
            return None


def _cond_alias(e: ast.AST) -> Optional[Tuple[ast.AST, ast.AST]]:
    """`<chain> if <cond> else <falsy constant>`: (cond, chain) - a value that is the chain exactly when it is truthy"""
    if isinstance(e, ast.IfExp) and isinstance(e.orelse, ast.Constant) and not e.orelse.value and _chain(e.body) \
            and all(isinstance(x, (ast.Name, ast.Attribute, ast.Load, ast.UnaryOp, ast.Not, ast.BoolOp, ast.And, ast.Or)) for x in ast.walk(e.test)):
        return e.test, e.body
    return None


def _stores(st: ast.AST) -> Tuple[Set[str], Set[str]]:
    """(names bound, attribute names stored or deleted) anywhere inside the statement"""
    names, attrs = set(), set()
    for x in ast.walk(st):
        if isinstance(x, ast.Name) and isinstance(x.ctx, (ast.Store, ast.Del)):
            names.add(x.id)
        elif isinstance(x, ast.Attribute) and isinstance(x.ctx, (ast.Store, ast.Del)):
            attrs.add(x.attr)
        elif isinstance(x, ast.Subscript) and isinstance(x.ctx, (ast.Store, ast.Del)) and isinstance(x.slice, ast.Constant):
            attrs.add(f"[{x.slice.value!r}]")
        elif isinstance(x, ast.ExceptHandler) and x.name:
            names.add(x.name)
    return names, attrs


class _Repl(ast.NodeTransformer):
    def __init__(self, targets: Dict[int, ast.AST]):
        self.t = targets

    def visit_Name(self, n):
        if id(n) in self.t:
            return ast.copy_location(copy.deepcopy(self.t[id(n)]), n)
        return n


def _blocks(fn: ast.AST):
    for node in ast.walk(fn):
        for fld in _BLOCKS:
            b = getattr(node, fld, None)
            if isinstance(b, list) and b and isinstance(b[0], ast.stmt):
                yield b
        if isinstance(node, ast.Try):
            for h in node.handlers:
                yield h.body


def inline_aliases_in(fn: ast.AST, unknown: Set[str]) -> int:
    if not unknown:
        return 0
    loads: Dict[str, List[ast.Name]] = {}
    stores: Dict[str, int] = {}
    for x in ast.walk(fn):
        if isinstance(x, ast.Name) and x.id in unknown:
            if isinstance(x.ctx, ast.Load):
                loads.setdefault(x.id, []).append(x)
            else:
                stores[x.id] = stores.get(x.id, 0) + 1
        elif isinstance(x, (ast.Global, ast.Nonlocal)):
            unknown = unknown - set(x.names)
    # candidate assignments: v -> [(block, index, replacement expr)]
    cands: Dict[str, List[Tuple[list, ast.stmt, ast.AST]]] = {}
    for b in _blocks(fn):
        for st in b:
            if not (isinstance(st, ast.Assign) and len(st.targets) == 1):
                continue
            t = st.targets[0]
            ch = _chain(st.value, plain=isinstance(st.value, ast.Name))
            if isinstance(t, ast.Name) and t.id in unknown and ch and ch[0] != t.id:
                cands.setdefault(t.id, []).append((b, st, st.value))
            elif isinstance(t, ast.Name) and t.id in unknown and _cond_alias(st.value):
                cands.setdefault(t.id, []).append((b, st, st.value))
            elif isinstance(t, ast.Tuple) and isinstance(st.value, ast.Tuple) and len(t.elts) == len(st.value.elts) \
                    and all(isinstance(e, ast.Name) for e in t.elts):
                # element-wise: `a, b = (x.y, True)`
                tn = {e.id for e in t.elts}
                for e, v in zip(t.elts, st.value.elts):
                    cv = _chain(v, plain=isinstance(v, ast.Name))
                    if e.id in unknown and (cv or isinstance(v, ast.Constant)) and not (cv and cv[0] in tn):
                        cands.setdefault(e.id, []).append((b, st, v))
            elif isinstance(t, ast.Tuple) and all(isinstance(e, ast.Name) for e in t.elts) and (ch or isinstance(st.value, ast.Name)):
                base = ch[0] if ch else st.value.id
                if any(e.id == base for e in t.elts):
                    continue
                for k, e in enumerate(t.elts):
                    if e.id in unknown:
                        cands.setdefault(e.id, []).append((b, st, ast.Subscript(value=st.value, slice=ast.Constant(value=k), ctx=ast.Load())))
    parents: Dict[int, ast.AST] = {}
    for x in ast.walk(fn):
        for c in ast.iter_child_nodes(x):
            parents[id(c)] = x
    done = 0
    removable: Dict[int, Tuple[list, ast.stmt, Set[str]]] = {}
    for v, lst in cands.items():
        if len(lst) != stores.get(v, 0):
            continue
        covered: Dict[int, ast.AST] = {}
        ok = True
        for b, st, repl in lst:
            ca = _cond_alias(repl)
            ch = (None, set()) if isinstance(repl, ast.Constant) else \
                (_chain(ca[1] if ca else repl, plain=True) or (repl.id if isinstance(repl, ast.Name) else None, set()))
            base, attrs = ch
            cond_names = {x.id for x in ast.walk(ca[0]) if isinstance(x, ast.Name)} if ca else set()
            i = next(k for k, s in enumerate(b) if s is st)
            for s in b[i + 1:]:
                names, sattrs = _stores(s)
                conflict = base in names or v in names or bool(attrs & sattrs) or bool(cond_names & names)
                here = [y for y in ast.walk(s) if isinstance(y, ast.Name) and y.id == v and isinstance(y.ctx, ast.Load)]
                if conflict and here and not isinstance(s, (ast.Assign, ast.AugAssign, ast.Return, ast.Expr)):
                    if v in names and not (base in names or attrs & sattrs):
                        pass  # a later re-assignment of the alias inside a compound statement is handled by its own candidate
                    else:
                        ok = False
                        break
                if conflict and isinstance(s, (ast.Assign, ast.AugAssign)):
                    # reads on the right-hand side happen before the store
                    tgt_ids = {id(y) for t in (s.targets if isinstance(s, ast.Assign) else [s.target]) for y in ast.walk(t)}
                    if any(id(y) in tgt_ids for y in here):
                        ok = False
                        break
                for y in here:
                    if ca:
                        par = parents.get(id(y))
                        if isinstance(par, ast.Attribute) and par.value is y:
                            covered[id(y)] = ca[1]
                        elif (isinstance(par, (ast.If, ast.While, ast.IfExp)) and par.test is y) or isinstance(par, ast.BoolOp) \
                                or (isinstance(par, ast.UnaryOp) and isinstance(par.op, ast.Not)):
                            covered[id(y)] = ast.BoolOp(op=ast.And(), values=[ca[0], ca[1]])
                        else:
                            ok = False
                            break
                    else:
                        covered[id(y)] = repl
                if not ok:
                    break
                if conflict:
                    break
            if not ok:
                break
        if not ok or set(covered) != {id(y) for y in loads.get(v, [])}:
            continue
        _Repl(covered).visit(fn)
        for b, st, _ in lst:
            ent = removable.setdefault(id(st), (b, st, set()))
            ent[2].add(v)
        done += 1
    for b, st, names in removable.values():
        t = st.targets[0]
        tn = {t.id} if isinstance(t, ast.Name) else {e.id for e in t.elts}
        if tn <= names:
            for k, s in enumerate(b):
                if s is st:
                    if len(b) > 1:
                        del b[k]
                    else:
                        b[k] = ast.copy_location(ast.Pass(), st)
                    break
    return done


# --------------------------------------------------------------------------- append loops over a new list
def _is_empty_list(e: ast.AST) -> bool:
    return (isinstance(e, ast.List) and not e.elts) or (isinstance(e, ast.Call) and isinstance(e.func, ast.Name) and e.func.id == "list" and not e.args and not e.keywords)


def loops_to_comprehensions(fn: ast.AST, unknown: Set[str]) -> int:
    """`L = []; for t in it: [if c: continue]* L.append(e)` with a list local the reference tree does not know is the
    comprehension `L = [e for t in it if not c]` (the reference spelling of a `comprehension -> explicit loop`
    refactoring); when L is then used exactly once, in the next statement, it is inlined there."""
    done = 0
    for b in list(_blocks(fn)):
        i = 0
        while i + 1 < len(b):
            st, lp = b[i], b[i + 1]
            i += 1
            if not (isinstance(st, ast.Assign) and len(st.targets) == 1 and isinstance(st.targets[0], ast.Name) and st.targets[0].id in unknown
                    and _is_empty_list(st.value) and isinstance(lp, ast.For) and not lp.orelse and lp.body):
                continue
            L = st.targets[0].id
            conds: List[ast.AST] = []
            body = list(lp.body)
            ok = True
            while len(body) > 1:
                g = body.pop(0)
                if isinstance(g, ast.If) and not g.orelse and len(g.body) == 1 and isinstance(g.body[0], ast.Continue):
                    conds.append(ast.UnaryOp(op=ast.Not(), operand=g.test))
                else:
                    ok = False
                    break
            if not ok:
                continue
            last = body[0]
            if isinstance(last, ast.If) and not last.orelse and len(last.body) == 1:
                conds.append(last.test)
                last = last.body[0]
            if not (isinstance(last, ast.Expr) and isinstance(last.value, ast.Call) and isinstance(last.value.func, ast.Attribute)
                    and last.value.func.attr == "append" and isinstance(last.value.func.value, ast.Name) and last.value.func.value.id == L
                    and len(last.value.args) == 1 and not last.value.keywords):
                continue
            uses_in_loop = sum(1 for x in ast.walk(lp) if isinstance(x, ast.Name) and x.id == L)
            if uses_in_loop != 1:
                continue
            comp = ast.ListComp(elt=last.value.args[0], generators=[ast.comprehension(target=lp.target, iter=lp.iter, ifs=conds, is_async=0)])
            st.value = ast.copy_location(comp, lp)
            del b[i]
            done += 1
            # single use in the next statement: inline
            total = sum(1 for x in ast.walk(fn) if isinstance(x, ast.Name) and x.id == L)
            if i < len(b) and total == 2 and isinstance(b[i], (ast.Return, ast.Assign, ast.Expr)):
                uses = [x for x in ast.walk(b[i]) if isinstance(x, ast.Name) and x.id == L and isinstance(x.ctx, ast.Load)]
                if len(uses) == 1:
                    _Repl({id(uses[0]): comp}).visit(b[i])
                    del b[i - 1]
                    i -= 1
    return done


# --------------------------------------------------------------------------- explicit work lists
def worklist_to_recursion(fn: ast.AST, unknown: Set[str]) -> int:
    """`W = [p]; while W: x = W.pop(); BODY` where p is a parameter, W a local the reference tree does not know and BODY
    touches W only through `W.append(e)` / `W.extend([e, ...])` is the explicit-stack spelling of the recursion
    `BODY[x := p, W.append(e) := f(..., e)]` (`replace recursion with iteration`). The visiting order may differ; the set of
    visited nodes and what is done at each does not, which is what the rules read."""
    if not isinstance(fn, ast.FunctionDef):
        return 0
    body = [s for s in fn.body if not (isinstance(s, ast.Expr) and isinstance(s.value, ast.Constant))]
    if len(body) != 2:
        return 0
    init, loop = body
    if not (isinstance(init, ast.Assign) and len(init.targets) == 1 and isinstance(init.targets[0], ast.Name) and init.targets[0].id in unknown
            and isinstance(init.value, ast.List) and len(init.value.elts) == 1 and isinstance(init.value.elts[0], ast.Name)):
        return 0
    W, p = init.targets[0].id, init.value.elts[0].id
    params = [a.arg for a in fn.args.posonlyargs + fn.args.args]
    if p not in params or fn.args.vararg or fn.args.kwarg or fn.args.kwonlyargs:
        return 0
    if not (isinstance(loop, ast.While) and not loop.orelse and isinstance(loop.test, ast.Name) and loop.test.id == W and loop.body):
        return 0
    first = loop.body[0]
    if not (isinstance(first, ast.Assign) and len(first.targets) == 1 and isinstance(first.targets[0], ast.Name)
            and isinstance(first.value, ast.Call) and isinstance(first.value.func, ast.Attribute) and first.value.func.attr in ("pop", "popleft")
            and isinstance(first.value.func.value, ast.Name) and first.value.func.value.id == W):
        return 0
    x = first.targets[0].id
    rest = loop.body[1:]
    if any(isinstance(n, (ast.Break, ast.Continue, ast.Return)) for s in rest for n in ast.walk(s)):
        return 0
    is_method = params and params[0] == "self"

    def call(e):
        args = [e if a == p else ast.Name(id=a, ctx=ast.Load()) for a in params if not (is_method and a == "self")]
        f = ast.Attribute(value=ast.Name(id="self", ctx=ast.Load()), attr=fn.name, ctx=ast.Load()) if is_method else ast.Name(id=fn.name, ctx=ast.Load())
        return ast.Expr(value=ast.Call(func=f, args=args, keywords=[]))

    ok = [True]

    class T(ast.NodeTransformer):
        def visit_Expr(self, n):
            c = n.value
            if isinstance(c, ast.Call) and isinstance(c.func, ast.Attribute) and isinstance(c.func.value, ast.Name) and c.func.value.id == W:
                if c.func.attr == "append" and len(c.args) == 1:
                    return ast.copy_location(call(self.visit(c.args[0])), n)
                if c.func.attr == "extend" and len(c.args) == 1 and isinstance(c.args[0], (ast.List, ast.Tuple)):
                    return [ast.copy_location(call(self.visit(e)), n) for e in c.args[0].elts]
                ok[0] = False
            self.generic_visit(n)
            return n

        def visit_Name(self, n):
            if n.id == W:
                ok[0] = False
            if n.id == x:
                return ast.copy_location(ast.Name(id=p, ctx=n.ctx), n)
            return n

    new = []
    for s in copy.deepcopy(rest):
        r = T().visit(s)
        new += r if isinstance(r, list) else [r]
    if not ok[0] or not new:
        return 0
    doc = [s for s in fn.body if isinstance(s, ast.Expr) and isinstance(s.value, ast.Constant)][:1]
    fn.body = doc + new
    ast.fix_missing_locations(fn)
    return 1


# --------------------------------------------------------------------------- flag / result locals
def _only_tail_assigns(stmts: List[ast.stmt], v: str) -> bool:
    """every assignment to v in the statement list is the last statement of its arm (nothing runs after it inside the list)"""
    for i, st in enumerate(stmts):
        last = i == len(stmts) - 1
        if isinstance(st, ast.Assign) and any(isinstance(t, ast.Name) and t.id == v for t in st.targets):
            if not last or len(st.targets) != 1:
                return False
            continue
        has = any(isinstance(x, ast.Name) and x.id == v and isinstance(x.ctx, ast.Store) for x in ast.walk(st))
        if not has:
            continue
        if not (last and isinstance(st, ast.If)):
            return False
        if not _only_tail_assigns(st.body, v) or not _only_tail_assigns(st.orelse, v):
            return False
    return True


def _push(stmts: List[ast.stmt], v: str, default: Optional[ast.AST], mk) -> Optional[List[ast.stmt]]:
    """replace the tail assignments `v = E` of the list by mk(E); an arm that assigns nothing gets mk(default)"""
    if not stmts:
        return mk(default) if default is not None else None
    out = list(stmts[:-1])
    last = stmts[-1]
    if isinstance(last, ast.Assign) and len(last.targets) == 1 and isinstance(last.targets[0], ast.Name) and last.targets[0].id == v:
        return out + mk(last.value)
    if isinstance(last, ast.If) and any(isinstance(x, ast.Name) and x.id == v and isinstance(x.ctx, ast.Store) for x in ast.walk(last)):
        b = _push(last.body, v, default, mk)
        o = _push(last.orelse, v, default, mk)
        if b is None or o is None:
            return None
        return out + [ast.copy_location(ast.If(test=last.test, body=b or [ast.Pass()], orelse=o), last)]
    if default is None:
        return None
    return list(stmts) + mk(default)


def _record_mk(use: ast.If, v: str):
    def mk(e):
        if isinstance(e, ast.Constant):
            return []
        body = copy.deepcopy(use.body)

        class Sub(ast.NodeTransformer):
            def visit_Subscript(s_, n):
                s_.generic_visit(n)
                if isinstance(n.value, ast.Tuple) and isinstance(n.slice, ast.Constant) and isinstance(n.slice.value, int) \
                        and -len(n.value.elts) <= n.slice.value < len(n.value.elts):
                    return n.value.elts[n.slice.value]
                return n

            def visit_Name(s_, n):
                return copy.deepcopy(e) if n.id == v and isinstance(n.ctx, ast.Load) else n
        out_ = []
        for st_ in body:
            st_ = Sub().visit(st_)
            # `a, b = (x, y)` with independent sides: `a = x; b = y`
            if isinstance(st_, ast.Assign) and len(st_.targets) == 1 and isinstance(st_.targets[0], ast.Tuple) and isinstance(st_.value, ast.Tuple) \
                    and len(st_.targets[0].elts) == len(st_.value.elts) and all(isinstance(t, ast.Name) for t in st_.targets[0].elts):
                tn = [t.id for t in st_.targets[0].elts]
                # sequential assignment is the same when no value reads a target that was assigned before it
                if not any(isinstance(x, ast.Name) and x.id in tn[:i_] for i_, val_ in enumerate(st_.value.elts) for x in ast.walk(val_)):
                    out_ += [ast.copy_location(ast.Assign(targets=[t], value=val_, type_comment=None), st_) for t, val_ in zip(st_.targets[0].elts, st_.value.elts)]
                    continue
            out_.append(st_)
        return out_
    return mk


def _records_to_branches(fn: ast.AST, v: str, stores, loads) -> int:
    """every read of v sits in an `if v:` (test or body) whose preceding statement assigns v on all of its paths, in tail position,
    None / False or a tuple literal; every store of v sits in such a carrier: each pair is rewritten on its own"""
    pairs = []
    for b in _blocks(fn):
        for i in range(1, len(b)):
            use, carrier = b[i], b[i - 1]
            if not (isinstance(use, ast.If) and not use.orelse and isinstance(use.test, ast.Name) and use.test.id == v):
                continue
            if not (isinstance(carrier, ast.If) and _only_tail_assigns([carrier], v)):
                continue
            if _push([carrier], v, None, lambda e: [ast.Pass()]) is None:
                continue  # some path through the carrier leaves v as it was
            pairs.append((b, carrier, use))
    if not pairs:
        return 0
    cov_l = {id(x) for _, _, use in pairs for x in ast.walk(use) if isinstance(x, ast.Name) and x.id == v and isinstance(x.ctx, ast.Load)}
    cov_s = {id(x) for _, carrier, _ in pairs for x in ast.walk(carrier) if isinstance(x, ast.Name) and x.id == v and isinstance(x.ctx, ast.Store)}
    if {id(x) for x in loads} != cov_l or {id(x) for x in stores} != cov_s:
        return 0
    if any(isinstance(x, ast.Name) and x.id == v and isinstance(x.ctx, ast.Store) for _, _, use in pairs for x in ast.walk(use)):
        return 0
    n = 0
    for b, carrier, use in pairs:
        new = _push([carrier], v, None, _record_mk(use, v))
        if new is None:
            continue
        i = b.index(carrier)
        b[i:i + 2] = new
        n += 1
    return n


def flags_to_branches(fn: ast.AST, unknown: Set[str], record_candidates: Set[str] = frozenset()) -> int:
    """A local the reference tree does not know that only carries a verdict from the arms of an if-chain to one use right after it
    (`ok = False; if c: ok = A else: ok = B` ... `return ok` / `if ok: BODY`) is the spelling `single exit with a flag`: the use is
    pushed back into the arms (`return A` / `if A: BODY`)."""
    done = 0
    for v in sorted(set(unknown) | set(record_candidates)):
        stores = [x for x in ast.walk(fn) if isinstance(x, ast.Name) and x.id == v and isinstance(x.ctx, ast.Store)]
        loads = [x for x in ast.walk(fn) if isinstance(x, ast.Name) and x.id == v and isinstance(x.ctx, ast.Load)]
        if not stores or not loads:
            continue
        if v not in unknown and len(loads) == 1:
            continue  # a name the reference tree does not have, initialised like one of its locals: only the record form is undone
        record = False
        if len(loads) != 1:
            # a record carried to one `if v:` whose body reads its fields (`a, b = v`, `v[1]`): every arm assigns None / False or
            # a tuple literal - `found = helper(..)` after inlining a helper that returns `None` or `(x, y, z)`
            vals = [a.value for a in ast.walk(fn) if isinstance(a, ast.Assign) and len(a.targets) == 1 and isinstance(a.targets[0], ast.Name) and a.targets[0].id == v]
            if len(vals) != len(stores) or not all((isinstance(e, ast.Constant) and not e.value) or (isinstance(e, ast.Tuple) and e.elts) for e in vals):
                continue
            record = True
        if record:
            done += _records_to_branches(fn, v, stores, loads)
            continue
        for b in _blocks(fn):
            # the use: `return v` or `if v:` / `if not v:` without else, directly in this block
            use_i = None
            for i, st in enumerate(b):
                if isinstance(st, ast.Return) and st.value is loads[0]:
                    use_i, kind = i, "return"
                elif isinstance(st, ast.If) and not st.orelse and (st.test is loads[0] or (
                        isinstance(st.test, ast.UnaryOp) and isinstance(st.test.op, ast.Not) and st.test.operand is loads[0])):
                    use_i, kind = i, ("ifnot" if isinstance(st.test, ast.UnaryOp) else "if")
            if use_i is None:
                continue
            # all stores of v are in this block before the use
            before = b[:use_i]
            in_before = [x for s_ in before for x in ast.walk(s_) if isinstance(x, ast.Name) and x.id == v and isinstance(x.ctx, ast.Store)]
            if len(in_before) != len(stores):
                break
            # an optional initial constant, then statements that do not touch v, then one statement that assigns in tail position(s)
            default = None
            idx = [i for i, s_ in enumerate(before) if any(isinstance(x, ast.Name) and x.id == v for x in ast.walk(s_))]
            rest_idx = list(idx)
            first = before[idx[0]]
            if isinstance(first, ast.Assign) and len(first.targets) == 1 and isinstance(first.targets[0], ast.Name) and first.targets[0].id == v \
                    and isinstance(first.value, ast.Constant) and len(idx) > 1:
                default = first.value
                rest_idx = idx[1:]
            if len(rest_idx) != 1 or rest_idx[0] != use_i - 1:
                break
            carrier = before[rest_idx[0]]
            if not _only_tail_assigns([carrier], v):
                break
            use = b[use_i]
            if kind == "return":
                mk = lambda e, use=use: [ast.copy_location(ast.Return(value=copy.deepcopy(e)), use)]  # noqa: E731
            elif kind == "if":
                mk = lambda e, use=use: ([] if isinstance(e, ast.Constant) and not e.value else copy.deepcopy(use.body) if isinstance(e, ast.Constant) else  # noqa: E731
                                          [ast.copy_location(ast.If(test=copy.deepcopy(e), body=copy.deepcopy(use.body), orelse=[]), use)])
            else:
                mk = lambda e, use=use: ([] if isinstance(e, ast.Constant) and e.value else copy.deepcopy(use.body) if isinstance(e, ast.Constant) else  # noqa: E731
                                          [ast.copy_location(ast.If(test=ast.UnaryOp(op=ast.Not(), operand=copy.deepcopy(e)), body=copy.deepcopy(use.body), orelse=[]), use)])
            new = _push([carrier], v, default, mk)
            if new is None:
                break
            if kind == "return":
                # the arms now return; what used to fall through to `return v` without assigning returns the default
                pass
            b[rest_idx[0]:use_i + 1] = new
            if default is not None:
                b.remove(first)
            done += 1
            break
    return done


# --------------------------------------------------------------------------- collect-then-act pipelines
def unfold_pipelines(fn: ast.AST, unknown: Set[str]) -> int:
    """`V = [t for t in SRC if C]` (V unknown, used once, as the iterable of the next loop / comprehension) is fused into that
    use, and `L.extend(e for t in it if c)` becomes `for t in it: if c: L.append(e)` - the single loop a `split into collect and
    act` refactoring started from."""
    done = 0
    for b in list(_blocks(fn)):
        i = 0
        while i < len(b):
            st = b[i]
            # L.extend(<generator or list comprehension>)
            if isinstance(st, ast.Expr) and isinstance(st.value, ast.Call) and isinstance(st.value.func, ast.Attribute) and st.value.func.attr == "extend" \
                    and len(st.value.args) == 1 and isinstance(st.value.args[0], (ast.GeneratorExp, ast.ListComp)) and len(st.value.args[0].generators) == 1:
                g = st.value.args[0]
                c = g.generators[0]
                body: List[ast.stmt] = [ast.Expr(value=ast.Call(func=ast.Attribute(value=st.value.func.value, attr="append", ctx=ast.Load()), args=[g.elt], keywords=[]))]
                for cond in reversed(c.ifs):
                    body = [ast.If(test=cond, body=body, orelse=[])]
                tgt = copy.deepcopy(c.target)
                for t in ast.walk(tgt):
                    if isinstance(t, (ast.Name, ast.Tuple, ast.List)):
                        t.ctx = ast.Store()
                b[i] = ast.copy_location(ast.For(target=tgt, iter=c.iter, body=body, orelse=[], type_comment=None), st)
                ast.fix_missing_locations(b[i])
                done += 1
                continue
            i += 1
    # L = []; ... L.append(e) ...; later `for y in L: BODY` / `T.extend(L)`: the act is done where the element is collected
    for v in sorted(unknown):
        occ = [x for x in ast.walk(fn) if isinstance(x, ast.Name) and x.id == v]
        inits = [st for b in _blocks(fn) for st in b if isinstance(st, ast.Assign) and len(st.targets) == 1 and isinstance(st.targets[0], ast.Name)
                 and st.targets[0].id == v and _is_empty_list(st.value)]
        if len(inits) != 1:
            continue
        apps = [c for c in ast.walk(fn) if isinstance(c, ast.Call) and isinstance(c.func, ast.Attribute) and c.func.attr == "append"
                and isinstance(c.func.value, ast.Name) and c.func.value.id == v and len(c.args) == 1 and not c.keywords]
        consumer = None
        for b in _blocks(fn):
            for st in b:
                if isinstance(st, ast.For) and isinstance(st.iter, ast.Name) and st.iter.id == v and isinstance(st.target, ast.Name) and not st.orelse \
                        and not any(isinstance(x, (ast.Break, ast.Continue, ast.Return)) for s_ in st.body for x in ast.walk(s_)):
                    consumer = (b, st, "for")
                elif isinstance(st, ast.Expr) and isinstance(st.value, ast.Call) and isinstance(st.value.func, ast.Attribute) and st.value.func.attr == "extend" \
                        and len(st.value.args) == 1 and isinstance(st.value.args[0], ast.Name) and st.value.args[0].id == v:
                    consumer = (b, st, "extend")
        if consumer is None or not apps or len(occ) != 1 + len(apps) + 1:
            continue
        cb, cst, kind = consumer
        if any(a.lineno >= cst.lineno for a in apps):
            continue
        for parent in ast.walk(fn):
            for fld in _BLOCKS:
                bb = getattr(parent, fld, None)
                if not (isinstance(bb, list) and bb and isinstance(bb[0], ast.stmt)):
                    continue
                for k, st in enumerate(list(bb)):
                    if isinstance(st, ast.Expr) and any(st.value is a for a in apps):
                        e = st.value.args[0]
                        if kind == "extend":
                            new = [ast.copy_location(ast.Expr(value=ast.Call(func=ast.Attribute(value=copy.deepcopy(cst.value.func.value), attr="append", ctx=ast.Load()),
                                                                            args=[e], keywords=[])), st)]
                        else:
                            tgt = cst.target.id

                            class S(ast.NodeTransformer):
                                def visit_Name(self, n, tgt=tgt, e=e):
                                    return ast.copy_location(copy.deepcopy(e), n) if n.id == tgt and isinstance(n.ctx, ast.Load) else n
                            new = [S().visit(copy.deepcopy(x)) for x in cst.body]
                        idx = next(j for j, x in enumerate(bb) if x is st)
                        bb[idx:idx + 1] = new
        cb.remove(cst)
        for b in _blocks(fn):
            if inits[0] in b:
                b.remove(inits[0])
                if not b:
                    b.append(ast.Pass())
        ast.fix_missing_locations(fn)
        done += 1
    # V = [t for t in SRC if C]; for t2 in V: BODY
    for v in sorted(unknown):
        names = [x for x in ast.walk(fn) if isinstance(x, ast.Name) and x.id == v]
        if len(names) != 2:
            continue
        for b in _blocks(fn):
            for i, st in enumerate(b):
                if not (isinstance(st, ast.Assign) and len(st.targets) == 1 and isinstance(st.targets[0], ast.Name) and st.targets[0].id == v
                        and isinstance(st.value, ast.ListComp) and len(st.value.generators) == 1):
                    continue
                c = st.value.generators[0]
                if not (isinstance(st.value.elt, ast.Name) and isinstance(c.target, ast.Name) and st.value.elt.id == c.target.id):
                    continue
                user = next((u for u in b[i + 1:] if isinstance(u, ast.For) and isinstance(u.iter, ast.Name) and u.iter.id == v and isinstance(u.target, ast.Name)), None)
                if user is None:
                    continue
                # statements in between must not touch the source
                ren = {c.target.id: user.target.id}

                class R(ast.NodeTransformer):
                    def visit_Name(self, n):
                        if n.id in ren:
                            return ast.copy_location(ast.Name(id=ren[n.id], ctx=n.ctx), n)
                        return n
                conds = [R().visit(copy.deepcopy(x)) for x in c.ifs]
                body = user.body
                for cond in reversed(conds):
                    body = [ast.copy_location(ast.If(test=cond, body=body, orelse=[]), user)]
                user.iter = c.iter
                user.body = body
                b.remove(st)
                ast.fix_missing_locations(user)
                done += 1
                break
    return done


def dictcomp_to_loops(fn: ast.AST, ref: Dict[str, str]) -> int:
    """`return {k: v for t in it [if c]}` in a function whose reference version built that dict in a local `D = dict()` / `D = {}`
    filled by a loop: back to `D = dict(); for t in it: [if c:] D[k] = v; return D` (the reference spelling of a
    `loop -> dict comprehension` refactoring). Only when D is no longer bound in the function."""
    names = [nm for key, nm in ref.items() if key.split("#")[0] in ("=dict()", "={}")]
    if len(names) != 1:
        return 0
    D = names[0]
    if any(isinstance(x, ast.Name) and x.id == D for x in ast.walk(fn)):
        return 0
    done = 0
    for b in list(_blocks(fn)):
        for i, st in enumerate(list(b)):
            if not (isinstance(st, ast.Return) and isinstance(st.value, ast.DictComp) and len(st.value.generators) == 1
                    and not st.value.generators[0].is_async):
                continue
            dc = st.value
            g = dc.generators[0]
            store = ast.Assign(targets=[ast.Subscript(value=ast.Name(id=D, ctx=ast.Load()), slice=dc.key, ctx=ast.Store())], value=dc.value, type_comment=None)
            body: List[ast.stmt] = [store]
            if g.ifs:
                test = g.ifs[0] if len(g.ifs) == 1 else ast.BoolOp(op=ast.And(), values=list(g.ifs))
                body = [ast.If(test=test, body=[store], orelse=[])]
            init = ast.Assign(targets=[ast.Name(id=D, ctx=ast.Store())], value=ast.Call(func=ast.Name(id="dict", ctx=ast.Load()), args=[], keywords=[]), type_comment=None)
            loop = ast.For(target=g.target, iter=g.iter, body=body, orelse=[], type_comment=None)
            for t in ast.walk(loop.target):
                if isinstance(t, ast.Name):
                    t.ctx = ast.Store()
            ret = ast.Return(value=ast.Name(id=D, ctx=ast.Load()))
            for new in (init, loop, ret):
                ast.copy_location(new, st)
            j = b.index(st)
            b[j:j + 1] = [init, loop, ret]
            done += 1
            break
    return done


def unknown_locals(tree: ast.Module, modname: str) -> Dict[str, Set[str]]:
    """per top-level function / method: the locals whose defining signature the reference tree does not know. Computed before
    the surface normalisation drops annotation-only statements (they are part of the signatures)."""
    table = localsig.load_table().get(modname)
    if not table:
        return {}
    from .inline import known_funcs
    known = set(known_funcs().get(modname, []))
    out: Dict[str, Set[str]] = {}
    for q, fn in localsig.top_functions(tree):
        ref = table.get(q)
        if ref is None:
            if q not in known:
                continue
            ref = {}  # a known function without locals in the reference tree
        sigs = localsig.signatures(fn)
        # unknown = defined in a way the reference function does not define any local (a reference *name* that is now bound
        # to something else - `for cur in _iter(..)` after inlining: `cur = <cursor>` - is unknown in this sense too)
        # (`v = <other local>` abstracts to the uninformative signature `=_`: such a plain alias counts as unknown unless the
        # reference function has a local of that very name with that signature)
        out[q] = {nm for nm, key in sigs.items() if key not in ref or (key.startswith("=_#") and ref.get(key) != nm)}
    return out


def inline_aliases(tree: ast.Module, modname: str, unknown_map: Optional[Dict[str, Set[str]]] = None) -> int:
    if unknown_map is None:
        unknown_map = unknown_locals(tree, modname)
    n = 0
    table = localsig.load_table().get(modname) or {}
    for q, fn in localsig.top_functions(tree):
        if table.get(q):
            n += dictcomp_to_loops(fn, table[q])
        unknown = unknown_map.get(q)
        if not unknown:
            continue
        n += inline_aliases_in(fn, unknown)
        n += loops_to_comprehensions(fn, unknown)
        n += worklist_to_recursion(fn, unknown)
        ref_names = set((table.get(q) or {}).values())
        bound = {x.id for x in ast.walk(fn) if isinstance(x, ast.Name) and isinstance(x.ctx, ast.Store)}
        k = flags_to_branches(fn, unknown, bound - ref_names if ref_names else frozenset())
        if k:
            n += k + inline_aliases_in(fn, unknown)
        n += unfold_pipelines(fn, unknown)
    if n:
        ast.fix_missing_locations(tree)
    return n
