"""Repository index: parses every shipped module of the working tree, indexes functions,
classes, module constants and parent links. Anchors fail closed (AnchorError -> exit 2)."""
from __future__ import annotations

import ast
import hashlib
import os
from typing import Dict, Iterator, List, Optional, Tuple

PACKAGES = ["esp_kconfiglib", "kconfgen", "kconfserver", "esp_menuconfig", "kconfcheck", "esp_idf_kconfig",
            "kconfiglib", "menuconfig"]


class AnchorError(Exception):
    """An anchor (function, class, construct) the rule needs cannot be resolved."""


def _stdlib_logger_names(tree: ast.Module) -> set:
    """module-level names bound to the stdlib logging module or to a logger obtained from it"""
    mods, loggers = set(), set()
    for n in tree.body:
        if isinstance(n, ast.Import):
            for al in n.names:
                if al.name == "logging":
                    mods.add(al.asname or "logging")
        elif isinstance(n, ast.ImportFrom) and n.module == "logging":
            for al in n.names:
                if al.name == "getLogger":
                    mods.add("<getLogger>:" + (al.asname or al.name))
    for n in tree.body:
        if isinstance(n, ast.Assign) and isinstance(n.value, ast.Call):
            f = n.value.func
            ok = (isinstance(f, ast.Attribute) and f.attr == "getLogger" and isinstance(f.value, ast.Name) and f.value.id in mods) or \
                 (isinstance(f, ast.Name) and "<getLogger>:" + f.id in mods)
            if ok:
                for t in n.targets:
                    if isinstance(t, ast.Name):
                        loggers.add(t.id)
    return {m for m in mods if not m.startswith("<")} | loggers


_PURE_ARG = (ast.Constant, ast.Name, ast.Attribute, ast.JoinedStr, ast.FormattedValue, ast.Subscript, ast.BinOp, ast.Tuple,
             ast.Load, ast.operator, ast.keyword)
_LOG_METHODS = {"debug", "info", "warning", "warn", "error", "exception", "critical", "log"}


class _Subst(ast.NodeTransformer):
    def __init__(self, target: ast.Name, value: ast.AST):
        self.target, self.value = target, value

    def visit_Name(self, n):
        return self.value if n is self.target else n


class _SurfaceNormaliser(ast.NodeTransformer):
    def __init__(self, logger_names: set):
        self.loggers = logger_names
        self.depth = 0
        self.count = 0

    def run(self, tree: ast.Module) -> int:
        self.visit(tree)
        return self.count

    def visit_FunctionDef(self, n):
        self.depth += 1
        self.generic_visit(n)
        self.depth -= 1
        if self.depth == 0:
            self._inline_explaining_vars(n)   # `g = (.. for ..); x = next(g, d)` first becomes `x = next((.. for ..), d)`
            self._next_to_loops(n)
            self._inline_explaining_vars(n)
            self._flatten_else(n)
        return n

    # `next((elt for t in it if c), d)` is the loop `for t in it: if c: <take elt>` with `d` when nothing matches
    def _next_to_loops(self, fn) -> None:
        def gen_of(e):
            if isinstance(e, ast.Call) and isinstance(e.func, ast.Name) and e.func.id == "next" and len(e.args) == 2 and not e.keywords \
                    and isinstance(e.args[0], ast.GeneratorExp) and len(e.args[0].generators) == 1 and not e.args[0].generators[0].is_async:
                return e.args[0], e.args[1]
            return None

        def loop(g, body):
            c = g.generators[0]
            inner = body
            if c.ifs:
                test = c.ifs[0] if len(c.ifs) == 1 else ast.BoolOp(op=ast.And(), values=list(c.ifs))
                inner = [ast.If(test=test, body=body, orelse=[])]
            return ast.For(target=c.target, iter=c.iter, body=inner, orelse=[], type_comment=None)

        cnt = {}
        for x in ast.walk(fn):
            if isinstance(x, ast.Name):
                cnt[x.id] = cnt.get(x.id, 0) + 1
        for node in ast.walk(fn):
            for fld in ("body", "orelse", "finalbody"):
                b = getattr(node, fld, None)
                if not (isinstance(b, list) and b and isinstance(b[0], ast.stmt)):
                    continue
                i = 0
                while i < len(b):
                    st = b[i]
                    new = None
                    if isinstance(st, ast.Return) and st.value is not None and gen_of(st.value):
                        g, d = gen_of(st.value)
                        new = [loop(g, [ast.Return(value=g.elt)]), ast.Return(value=d)]
                    elif isinstance(st, ast.Assign) and len(st.targets) == 1 and isinstance(st.targets[0], ast.Name) and gen_of(st.value):
                        g, d = gen_of(st.value)
                        v = st.targets[0].id
                        nx = b[i + 1] if i + 1 < len(b) else None
                        if isinstance(d, ast.Constant) and d.value is None and cnt.get(v) == 3 and isinstance(nx, ast.If) and not nx.orelse \
                                and ast.unparse(nx.test) == f"{v} is not None" and len(nx.body) == 1 and isinstance(nx.body[0], ast.Return) \
                                and ast.unparse(nx.body[0].value) == v:
                            new = [loop(g, [ast.Return(value=g.elt)])]
                            del b[i + 1]
                        else:
                            new = [ast.Assign(targets=[ast.Name(id=v, ctx=ast.Store())], value=d),
                                   loop(g, [ast.Assign(targets=[ast.Name(id=v, ctx=ast.Store())], value=g.elt), ast.Break()])]
                    if new is not None:
                        for x in new:
                            ast.copy_location(x, st)
                            ast.fix_missing_locations(x)
                        for t in ast.walk(new[0] if isinstance(new[0], ast.For) else new[-1]):
                            pass
                        b[i:i + 1] = new
                        self.count += 1
                        i += len(new)
                    else:
                        i += 1
        # loop targets become stores
        for x in ast.walk(fn):
            if isinstance(x, ast.For):
                for t in ast.walk(x.target):
                    if isinstance(t, (ast.Name, ast.Tuple, ast.List)):
                        t.ctx = ast.Store()

    # `if c: ...; return` + `else: B`  ==  `if c: ...; return` followed by B (canonical form: flattened); elif chains are
    # left alone (rules read them as dispatch tables)
    def _flatten_else(self, fn) -> None:
        def term(body):
            return bool(body) and isinstance(body[-1], (ast.Return, ast.Raise, ast.Continue, ast.Break))

        changed = True
        while changed:
            changed = False
            for node in ast.walk(fn):
                for fld in ("body", "orelse", "finalbody"):
                    b = getattr(node, fld, None)
                    if not (isinstance(b, list) and b and isinstance(b[0], ast.stmt)):
                        continue
                    if fld == "orelse" and isinstance(node, ast.If) and len(b) == 1 and isinstance(b[0], ast.If):
                        continue
                    out = []
                    for st in b:
                        out.append(st)
                        if isinstance(st, ast.If) and st.orelse and term(st.body) and not (len(st.orelse) == 1 and isinstance(st.orelse[0], ast.If)):
                            out.extend(st.orelse)
                            st.orelse = []
                            changed = True
                            self.count += 1
                    b[:] = out

    visit_AsyncFunctionDef = visit_FunctionDef

    # `c = <expr>` immediately followed by the only use of `c` (the test of an `if`, or anywhere in a simple statement)
    # is the spelling `if <expr>:` with an explaining variable: inline it back
    def _inline_explaining_vars(self, fn) -> None:
        import collections
        cnt = collections.Counter(x.id for x in ast.walk(fn) if isinstance(x, ast.Name))
        for x in ast.walk(fn):
            if isinstance(x, (ast.Global, ast.Nonlocal)):
                for nm in x.names:
                    cnt[nm] += 10
        for node in ast.walk(fn):
            for fld in ("body", "orelse", "finalbody"):
                b = getattr(node, fld, None)
                if not (isinstance(b, list) and b and isinstance(b[0], ast.stmt)):
                    continue
                i = 0
                while i + 1 < len(b):
                    st, nx = b[i], b[i + 1]
                    if isinstance(st, ast.Assign) and len(st.targets) == 1 and isinstance(st.targets[0], ast.Name) \
                            and cnt[st.targets[0].id] == 2 and not isinstance(st.value, (ast.Yield, ast.YieldFrom, ast.Await)):
                        v = st.targets[0].id
                        if isinstance(nx, ast.If):
                            hdr = [nx.test]
                        elif isinstance(nx, (ast.Assign, ast.AugAssign, ast.Return, ast.Expr, ast.Raise, ast.Assert)):
                            hdr = [nx]
                        else:
                            hdr = []
                        uses = [y for h in hdr for y in ast.walk(h) if isinstance(y, ast.Name) and y.id == v and isinstance(y.ctx, ast.Load)]
                        if len(uses) == 1 and not any(isinstance(y, (ast.Lambda, ast.ListComp, ast.SetComp, ast.DictComp, ast.GeneratorExp))
                                                      for h in hdr for y in ast.walk(h)):
                            _Subst(uses[0], st.value).visit(nx)
                            del b[i]
                            self.count += 1
                            i = max(i - 1, 0)  # the statement before may now be followed by its only use
                            continue
                    i += 1


    def visit_AnnAssign(self, n: ast.AnnAssign):
        if not self.depth:
            return n
        self.count += 1
        if n.value is None:
            return ast.copy_location(ast.Pass(), n)
        return ast.copy_location(ast.Assign(targets=[n.target], value=n.value, type_comment=None), n)

    def visit_Expr(self, n: ast.Expr):
        c = n.value
        if self.depth and self.loggers and isinstance(c, ast.Call) and isinstance(c.func, ast.Attribute) and c.func.attr in _LOG_METHODS \
                and isinstance(c.func.value, ast.Name) and c.func.value.id in self.loggers \
                and all(isinstance(x, _PURE_ARG) for a in list(c.args) + [k.value for k in c.keywords] for x in ast.walk(a)):
            self.count += 1
            return ast.copy_location(ast.Pass(), n)
        return n


class Module:
    def __init__(self, name: str, path: str, relpath: str, src: str):
        self.name = name
        self.path = path
        self.relpath = relpath
        self.src = src
        self.digest = hashlib.sha256(src.encode("utf-8")).hexdigest()
        self.tree = ast.parse(src, filename=path)
        self.lines = src.splitlines()
        # helpers that the reference tree does not know (the product of an `extract function` refactoring) are inlined back
        # into their call sites, in memory only (see sa/inline.py)
        from . import dispatch, inline, relocate
        # dispatch tables the reference tree does not know are expanded back into conditional chains (see sa/dispatch.py)
        self.expanded = dispatch.expand(self.tree, name) + dispatch.untuple_records(self.tree, name) + dispatch.inline_new_constants(self.tree, name) + dispatch.anyall_to_loops(self.tree, name) + dispatch.format_to_fstrings(self.tree, name)
        # functions the reference tree knows under another name / nesting are put back first (see sa/relocate.py)
        self.relocated = relocate.restore(self.tree, name)
        self.inlined = inline.inline_new_helpers(self.tree, name)
        # surface normalisation (in memory only): annotated assignments inside functions become plain ones, statements
        # that only talk to the standard library's logging become `pass` - both are behaviour-neutral spellings
        from . import alias
        unknown_map = alias.unknown_locals(self.tree, name)
        self.normalised = _SurfaceNormaliser(_stdlib_logger_names(self.tree)).run(self.tree)
        # local aliases the reference tree does not know are substituted back into their uses (see sa/alias.py)
        self.aliases_inlined = alias.inline_aliases(self.tree, name, unknown_map)
        # alpha-normalise locals back to the names the rules use (see sa/localsig.py); in-memory only
        from . import localsig
        self.renamed_locals = localsig.normalise(self.tree, name)


class Func:
    def __init__(self, qual: str, node: ast.AST, module: Module, cls: Optional[str], parent: Optional["Func"]):
        self.qual = qual  # "pkg.mod:Class.meth" / "pkg.mod:func" / "...<locals>.inner"
        self.node = node
        self.module = module
        self.cls = cls
        self.parent = parent

    @property
    def name(self) -> str:
        return self.node.name  # type: ignore[attr-defined]

    @property
    def short(self) -> str:
        return self.qual.split(":", 1)[1]

    def loc(self, node: Optional[ast.AST] = None) -> str:
        n = node if node is not None else self.node
        return f"{self.module.relpath}:{getattr(n, '_orig_lineno', getattr(n, 'lineno', 0))}"

    def is_property(self) -> bool:
        for d in self.node.decorator_list:  # type: ignore[attr-defined]
            if isinstance(d, ast.Name) and d.id == "property":
                return True
        return False


class Repo:
    def __init__(self, root: str):
        self.root = os.path.abspath(root)
        self.modules: Dict[str, Module] = {}
        self.funcs: Dict[str, Func] = {}
        self.classes: Dict[str, ast.ClassDef] = {}
        self.parents: Dict[int, ast.AST] = {}
        self.func_of_node: Dict[int, Func] = {}
        self.consulted: Dict[str, str] = {}
        for pkg in PACKAGES:
            pdir = os.path.join(self.root, pkg)
            if not os.path.isdir(pdir):
                continue
            for dirpath, dirnames, filenames in os.walk(pdir):
                dirnames[:] = sorted(d for d in dirnames if d != "__pycache__")
                for fn in sorted(filenames):
                    if not fn.endswith(".py"):
                        continue
                    path = os.path.join(dirpath, fn)
                    rel = os.path.relpath(path, self.root)
                    modname = rel[:-3].replace(os.sep, ".")
                    if modname.endswith(".__init__"):
                        modname = modname[: -len(".__init__")]
                    with open(path, encoding="utf-8") as f:
                        src = f.read()
                    try:
                        m = Module(modname, path, rel, src)
                    except SyntaxError as e:
                        raise AnchorError(f"cannot parse {rel}: {e}")
                    self.modules[modname] = m
                    self._index(m)

    # ------------------------------------------------------------------ indexing
    def _index(self, m: Module) -> None:
        for parent in ast.walk(m.tree):
            for child in ast.iter_child_nodes(parent):
                self.parents[id(child)] = parent

        def rec(body, prefix: str, cls: Optional[str], pf: Optional[Func]):
            for n in body:
                if isinstance(n, (ast.FunctionDef, ast.AsyncFunctionDef)):
                    q = f"{m.name}:{prefix}{n.name}"
                    f = Func(q, n, m, cls, pf)
                    self.funcs[q] = f
                    for sub in ast.walk(n):
                        self.func_of_node.setdefault(id(sub), f)
                    rec_nested(n, f"{prefix}{n.name}.<locals>.", cls, f)
                elif isinstance(n, ast.ClassDef):
                    self.classes[f"{m.name}:{prefix}{n.name}"] = n
                    rec(n.body, f"{prefix}{n.name}.", n.name, pf)
                elif isinstance(n, (ast.If, ast.Try, ast.With)):
                    for fld in ("body", "orelse", "finalbody"):
                        rec(getattr(n, fld, []) or [], prefix, cls, pf)
                    for h in getattr(n, "handlers", []) or []:
                        rec(h.body, prefix, cls, pf)

        def rec_nested(fn, prefix, cls, pf):
            # functions/classes defined anywhere inside fn's body (not inside deeper defs)
            stack = list(fn.body)
            while stack:
                n = stack.pop(0)
                if isinstance(n, (ast.FunctionDef, ast.AsyncFunctionDef)):
                    q = f"{m.name}:{prefix}{n.name}"
                    f = Func(q, n, m, cls, pf)
                    self.funcs[q] = f
                    for sub in ast.walk(n):
                        self.func_of_node[id(sub)] = f
                    rec_nested(n, f"{prefix}{n.name}.<locals>.", cls, f)
                elif isinstance(n, ast.ClassDef):
                    self.classes[f"{m.name}:{prefix}{n.name}"] = n
                    rec(n.body, f"{prefix}{n.name}.", n.name, pf)
                else:
                    for c in ast.iter_child_nodes(n):
                        if isinstance(c, (ast.stmt, ast.ExceptHandler, ast.match_case)) or isinstance(
                            c, (ast.FunctionDef, ast.ClassDef)
                        ):
                            stack.append(c)

        rec(m.tree.body, "", None, None)

    # ------------------------------------------------------------------ lookups
    def module(self, name: str) -> Module:
        m = self.modules.get(name)
        if m is None:
            raise AnchorError(f"module {name} not found under {self.root}")
        self.consulted[m.relpath] = m.digest
        return m

    def _imported_from(self, modname: str, name: str) -> Optional[str]:
        """the module of this repository from which `modname` imports the top-level name `name` (a function or constant that
        was moved to another module of the package and is imported back under its old name), or None"""
        m = self.modules.get(modname)
        if m is None:
            return None
        pkg = modname.rsplit(".", 1)[0] if "." in modname else modname
        for st in m.tree.body:
            if isinstance(st, ast.ImportFrom) and any((a.asname or a.name) == name for a in st.names):
                if st.level:
                    base = modname.split(".")
                    base = base[: len(base) - st.level] if not m.path.endswith("__init__.py") else base[: len(base) - st.level + 1]
                    target = ".".join(base + ([st.module] if st.module else []))
                else:
                    target = st.module or ""
                orig = next(a.name for a in st.names if (a.asname or a.name) == name)
                if target in self.modules:
                    return f"{target}:{orig}"
        return None

    def func(self, qual: str) -> Func:
        f = self.funcs.get(qual)
        if f is None and ":" in qual and "." not in qual.split(":", 1)[1]:
            # a top-level function that moved to another module of the repository and is imported back
            moved = self._imported_from(*qual.split(":", 1))
            if moved is not None:
                f = self.funcs.get(moved)
        if f is None:
            raise AnchorError(f"function {qual} not found")
        self.consulted[f.module.relpath] = f.module.digest
        return f

    def has_func(self, qual: str) -> bool:
        if qual in self.funcs:
            return True
        if ":" in qual and "." not in qual.split(":", 1)[1]:
            moved = self._imported_from(*qual.split(":", 1))
            return moved is not None and moved in self.funcs
        return False

    def cls(self, qual: str) -> ast.ClassDef:
        c = self.classes.get(qual)
        if c is None:
            raise AnchorError(f"class {qual} not found")
        self.consulted[self.modules[qual.split(":")[0]].relpath] = self.modules[qual.split(":")[0]].digest
        return c

    def methods(self, cls_qual: str) -> Dict[str, Func]:
        mod, cname = cls_qual.split(":")
        pre = f"{mod}:{cname}."
        return {q[len(pre):]: f for q, f in self.funcs.items() if q.startswith(pre) and "." not in q[len(pre):]}

    def funcs_in(self, modname: str) -> List[Func]:
        self.module(modname)
        return [f for q, f in self.funcs.items() if q.startswith(modname + ":")]

    def all_funcs(self) -> Iterator[Func]:
        return iter(self.funcs.values())

    def parent(self, node: ast.AST) -> Optional[ast.AST]:
        return self.parents.get(id(node))

    def enclosing_func(self, node: ast.AST) -> Optional[Func]:
        return self.func_of_node.get(id(node))

    def enclosing_stmt(self, node: ast.AST) -> ast.stmt:
        n: Optional[ast.AST] = node
        while n is not None and not isinstance(n, ast.stmt):
            n = self.parent(n)
        if n is None:
            raise AnchorError("no enclosing statement")
        return n

    def slots(self, cls_qual: str) -> List[str]:
        c = self.cls(cls_qual)
        for n in c.body:
            if isinstance(n, ast.Assign) and any(isinstance(t, ast.Name) and t.id == "__slots__" for t in n.targets):
                if isinstance(n.value, (ast.Tuple, ast.List)):
                    return [e.value for e in n.value.elts if isinstance(e, ast.Constant)]
        raise AnchorError(f"{cls_qual} has no literal __slots__")

    def module_assigns(self, modname: str) -> Dict[str, ast.AST]:
        """Top-level `NAME = expr` (last assignment wins); tuple targets are unpacked positionally."""
        out: Dict[str, ast.AST] = {}
        for n in self.module(modname).tree.body:
            if isinstance(n, ast.Assign):
                for t in n.targets:
                    if isinstance(t, ast.Name):
                        out[t.id] = n.value
                    elif isinstance(t, (ast.Tuple, ast.List)):
                        if isinstance(n.value, (ast.Tuple, ast.List)) and len(n.value.elts) == len(t.elts):
                            for tt, vv in zip(t.elts, n.value.elts):
                                if isinstance(tt, ast.Name):
                                    out[tt.id] = vv
                        else:
                            for i, tt in enumerate(t.elts):
                                if isinstance(tt, ast.Name):
                                    out[tt.id] = ast.Subscript(value=n.value, slice=ast.Constant(i), ctx=ast.Load())
            elif isinstance(n, ast.AnnAssign) and isinstance(n.target, ast.Name) and n.value is not None:
                out[n.target.id] = n.value
        return out

    def resolve_const(self, modname: str, name: str, depth: int = 6) -> Optional[ast.AST]:
        """Follow NAME = OTHER chains inside one module."""
        env = self.module_assigns(modname)
        cur: Optional[ast.AST] = env.get(name)
        if cur is None:
            moved = self._imported_from(modname, name)
            if moved is not None:
                m2, n2 = moved.split(":", 1)
                return self.resolve_const(m2, n2, depth)
        while depth and isinstance(cur, ast.Name) and cur.id in env:
            cur = env[cur.id]
            depth -= 1
        return cur

    def text(self, node: ast.AST) -> str:
        return ast.unparse(node)
