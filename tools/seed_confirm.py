#!/venv/bin/python
"""Confirm a sub-agent's seeded change in a fresh scratch worktree and keep it under /verif/seeded/.
usage: tools/seed_confirm.py C05 1 [C05 2 ...]   (reads /tmp/wt/<ID>-out/<n>/{patch.diff,demo.py,meta.json})"""
import json, os, shutil, subprocess, sys, tempfile
from concurrent.futures import ThreadPoolExecutor
V = os.path.dirname(os.path.dirname(os.path.abspath(__file__)))

def sh(cmd, cwd=None, env=None, timeout=900):
    r = subprocess.run(cmd, cwd=cwd, env=env, capture_output=True, text=True, timeout=timeout)
    return r.returncode, (r.stdout + r.stderr)

def confirm(pid, n):
    src = f"{os.environ.get('SEED_SRC', '/tmp/wt')}/{pid}-out/{n}"
    if not os.path.exists(f"{src}/patch.diff"):
        return pid, n, "missing deliverables"
    wt = tempfile.mkdtemp(prefix=f"seedchk-{pid}-{n}-", dir="/tmp")
    os.rmdir(wt)
    ran = []
    try:
        rc, out = sh(["git", "-C", "/repo", "worktree", "add", "--detach", wt, "HEAD", "-q"])
        if rc: return pid, n, "worktree failed " + out
        env = dict(os.environ, PYTHONPATH=wt)
        rc0, out0 = sh(["/venv/bin/python", f"{src}/demo.py", wt], cwd=wt, env=env)
        ran.append(f"demo on clean tree: exit {rc0}")
        rc, out = sh(["git", "apply", f"{src}/patch.diff"], cwd=wt)
        rebased = False
        if rc:
            rc, out = sh(["git", "apply", "--3way", f"{src}/patch.diff"], cwd=wt)
            rebased = True
        if rc: return pid, n, "patch does not apply: " + out[-300:]
        _, cur_diff = sh(["git", "diff", "HEAD"], cwd=wt)
        rc1, out1 = sh(["/venv/bin/python", f"{src}/demo.py", wt], cwd=wt, env=env)
        ran.append(f"demo with patch: exit {rc1}")
        rcb, outb = sh(["/venv/bin/python", f"{V}/tools/baseline_check.py", wt])
        ran.append(f"baseline_check with patch: exit {rcb} {outb.strip().splitlines()[0] if outb.strip() else ''}")
        ok = rc0 == 0 and rc1 != 0 and rcb == 0
        if ok:
            dst = f"{V}/seeded/{pid}-{int(n) + int(os.environ.get('SEED_OFFSET', '0'))}"
            os.makedirs(dst, exist_ok=True)
            shutil.copy(f"{src}/demo.py", dst)
            open(f"{dst}/patch.diff", "w").write(cur_diff if rebased else open(f"{src}/patch.diff").read())
            meta = json.load(open(f"{src}/meta.json")) if os.path.exists(f"{src}/meta.json") else {}
            meta["property"] = pid
            meta["round"] = int(os.environ.get("SEED_ROUND", "2" if os.environ.get("SEED_OFFSET") else "1"))
            meta["confirmed"] = ran
            if rebased:
                meta["rebased"] = "3-way merged onto the current /repo HEAD (the agent's worktree predates later fix: commits)"
            meta["demo_output_with_patch"] = out1[-1500:]
            json.dump(meta, open(f"{dst}/meta.json", "w"), indent=1)
        return pid, n, ("CONFIRMED " if ok else "REJECTED ") + "; ".join(ran)
    finally:
        sh(["git", "-C", "/repo", "worktree", "remove", "--force", wt])
        shutil.rmtree(wt, ignore_errors=True)

args = sys.argv[1:]
jobs = [(args[i], args[i + 1]) for i in range(0, len(args), 2)]
with ThreadPoolExecutor(6) as ex:
    for r in ex.map(lambda a: confirm(*a), jobs):
        print(*r, flush=True)
