#!/venv/bin/python
"""Regenerate sa/localsig.json (signature -> reference local name per function) from /repo's current tree.
Run only on a tree on which all checks are green; the table is committed and never written at check time."""
import ast, json, os, sys
V = os.path.dirname(os.path.dirname(os.path.abspath(__file__)))
sys.path.insert(0, V)
from sa import localsig
from sa.repo import PACKAGES
root = sys.argv[1] if len(sys.argv) > 1 else "/repo"
from sa import inline, relocate
table = {}
known = {}
shapes = {}
for pkg in PACKAGES:
    for dp, dn, fn in os.walk(os.path.join(root, pkg)):
        dn[:] = sorted(d for d in dn if d != "__pycache__")
        for f in sorted(fn):
            if not f.endswith(".py"): continue
            p = os.path.join(dp, f)
            rel = os.path.relpath(p, root)
            mod = rel[:-3].replace(os.sep, ".")
            if mod.endswith(".__init__"): mod = mod[:-9]
            tree = ast.parse(open(p, encoding="utf-8").read())
            ent = {}
            for q, node in localsig.top_functions(tree):
                sigs = localsig.signatures(node)
                if sigs:
                    ent[q] = {key: nm for nm, key in sorted(sigs.items())}
            if ent: table[mod] = ent
            known[mod] = sorted(inline.all_function_quals(tree))
            glob = sorted({t.id for st in tree.body for t in ([x for tt in st.targets for x in ast.walk(tt)] if isinstance(st, ast.Assign) else
                                                               [st.target] if isinstance(st, (ast.AnnAssign, ast.AugAssign)) else []) if isinstance(t, ast.Name)})
            shapes[mod] = {q: {"params": relocate.params_of(v[0]), "bag": relocate.bag_of(v[0])} for q, v in inline.all_function_quals(tree).items()}
            glob = sorted(set(glob) | {st.name for st in tree.body if isinstance(st, (ast.ClassDef, ast.FunctionDef, ast.AsyncFunctionDef))})
            shapes[mod]["<globals>"] = {"params": [], "bag": glob}
json.dump(table, open(localsig.TABLE_PATH, "w"), indent=0, sort_keys=True)
json.dump(shapes, open(relocate.SHAPES_PATH, "w"), indent=0, sort_keys=True)
json.dump(known, open(inline.KNOWN_PATH, "w"), indent=0, sort_keys=True)
print("modules", len(table), "functions", sum(len(v) for v in table.values()), "locals", sum(len(x) for v in table.values() for x in v.values()))
