#!/venv/bin/python
"""Confirm a sub-agent's behaviour-preserving refactoring and keep it under /verif/benign/<ID>-b<n>/.
A refactoring is kept when, in a fresh scratch worktree of /repo HEAD: the patch applies, the pinned suite stays green
(tools/baseline_check.py: missing=0) and every kept seeded demo of the same property (seeded/<ID>-*/demo.py, each exits 0 on
the unmodified tree) still exits 0 on the refactored tree.
usage: SEED_SRC=/tmp/wt4 [BENIGN_OFFSET=2] tools/benign_confirm.py C05 1 [C05 2 ...]"""
import json, os, shutil, subprocess, sys, tempfile
from concurrent.futures import ThreadPoolExecutor
V = os.path.dirname(os.path.dirname(os.path.abspath(__file__)))


def sh(cmd, cwd=None, env=None, timeout=900):
    r = subprocess.run(cmd, cwd=cwd, env=env, capture_output=True, text=True, timeout=timeout)
    return r.returncode, (r.stdout + r.stderr)


def confirm(pid, n):
    src = f"{os.environ.get('SEED_SRC', '/tmp/wt4')}/{pid}-out/benign{n}"
    if not os.path.exists(f"{src}/patch.diff") or os.path.getsize(f"{src}/patch.diff") == 0:
        return pid, n, "missing deliverables"
    wt = tempfile.mkdtemp(prefix=f"benchk-{pid}-{n}-", dir="/tmp")
    os.rmdir(wt)
    ran = []
    try:
        rc, out = sh(["git", "-C", "/repo", "worktree", "add", "--detach", wt, "HEAD", "-q"])
        if rc:
            return pid, n, "worktree failed " + out
        rc, out = sh(["git", "apply", "--3way", f"{src}/patch.diff"], cwd=wt)
        if rc:
            rc, out = sh(["git", "apply", f"{src}/patch.diff"], cwd=wt)
        if rc:
            return pid, n, "patch does not apply: " + out[-300:]
        rcb, outb = sh(["/venv/bin/python", f"{V}/tools/baseline_check.py", wt])
        ran.append(f"baseline_check: exit {rcb} {outb.strip().splitlines()[-1] if outb.strip() else ''}")
        env = dict(os.environ, PYTHONPATH=wt)
        bad = []
        demos = sorted(d for d in os.listdir(f"{V}/seeded") if d.startswith(pid + "-") and os.path.exists(f"{V}/seeded/{d}/demo.py"))
        for d in demos:
            rc, out = sh(["/venv/bin/python", f"{V}/seeded/{d}/demo.py", wt], cwd=wt, env=env)
            if rc != 0:
                bad.append(d)
        ran.append(f"{len(demos)} seeded demos of {pid} on the refactored tree: {'all exit 0' if not bad else 'FAIL ' + ','.join(bad)}")
        ok = rcb == 0 and not bad
        if ok:
            dst = f"{V}/benign/{pid}-b{int(n) + int(os.environ.get('BENIGN_OFFSET', '0'))}"
            os.makedirs(dst, exist_ok=True)
            rc, diff = sh(["git", "diff", "HEAD"], cwd=wt)
            open(f"{dst}/patch.diff", "w").write(diff)
            meta = json.load(open(f"{src}/meta.json")) if os.path.exists(f"{src}/meta.json") else {}
            meta["property"] = pid
            meta["confirmed"] = ran
            json.dump(meta, open(f"{dst}/meta.json", "w"), indent=1)
        return pid, n, ("CONFIRMED " if ok else "REJECTED ") + "; ".join(ran)
    finally:
        sh(["git", "-C", "/repo", "worktree", "remove", "--force", wt])
        shutil.rmtree(wt, ignore_errors=True)


args = sys.argv[1:]
jobs = [(args[i], args[i + 1]) for i in range(0, len(args), 2)]
with ThreadPoolExecutor(5) as ex:
    for r in ex.map(lambda a: confirm(*a), jobs):
        print(*r, flush=True)
