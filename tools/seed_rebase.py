#!/venv/bin/python
"""Re-create kept patches (seeded/<id> or benign/<id>) that no longer apply to /repo HEAD after a later `fix:` commit:
`git apply --3way` in a scratch worktree; for a seed the demo must still exit non-zero with the patch and 0 without.
usage: tools/seed_rebase.py <id> ..."""
import json, os, shutil, subprocess, sys, tempfile
V = os.path.dirname(os.path.dirname(os.path.abspath(__file__)))


def sh(cmd, cwd=None, env=None):
    r = subprocess.run(cmd, cwd=cwd, env=env, capture_output=True, text=True)
    return r.returncode, r.stdout + r.stderr


for sid in sys.argv[1:]:
    kind = "benign" if os.path.isdir(f"{V}/benign/{sid}") else "seeded"
    d = f"{V}/{kind}/{sid}"
    wt = tempfile.mkdtemp(prefix=f"rebase-{sid}-", dir="/tmp"); os.rmdir(wt)
    try:
        sh(["git", "-C", "/repo", "worktree", "add", "--detach", wt, "HEAD", "-q"])
        rc, out = sh(["git", "apply", "--3way", f"{d}/patch.diff"], cwd=wt)
        if rc:
            sh(["git", "checkout", "--", "."], cwd=wt)
            sh(["git", "reset", "-q", "--hard", "HEAD"], cwd=wt)
            rc, out = sh(["patch", "-p1", "-F3", "--no-backup-if-mismatch", "-i", f"{d}/patch.diff"], cwd=wt)
            if rc:
                sh(["git", "reset", "-q", "--hard", "HEAD"], cwd=wt)
                sh(["git", "clean", "-fdq"], cwd=wt)
            note_ctx = True
        if rc:
            print(sid, "3-way failed:", out.strip().splitlines()[-1][:150]); continue
        _, diff = sh(["git", "diff", "HEAD"], cwd=wt)
        if "<<<<<<<" in diff:
            print(sid, "conflict markers - needs hand work"); continue
        env = dict(os.environ, PYTHONPATH=wt)
        note = "3-way merged onto the current /repo HEAD after later fix: commits"
        if kind == "seeded":
            rc1, _ = sh(["/venv/bin/python", f"{d}/demo.py", wt], cwd=wt, env=env)
            sh(["git", "stash", "-q"], cwd=wt) if False else None
            if rc1 == 0:
                print(sid, "demo passes with the rebased patch - the fix neutralised it?"); continue
        rcb, outb = sh(["/venv/bin/python", f"{V}/tools/baseline_check.py", wt])
        if rcb:
            print(sid, "baseline fails:", outb.strip().splitlines()[-1]); continue
        open(f"{d}/patch.diff", "w").write(diff)
        m = json.load(open(f"{d}/meta.json")); m["rebased"] = note; json.dump(m, open(f"{d}/meta.json", "w"), indent=1)
        print(sid, "rebased")
    finally:
        sh(["git", "-C", "/repo", "worktree", "remove", "--force", wt]); shutil.rmtree(wt, ignore_errors=True)
