#!/venv/bin/python
"""Regenerates, inside DESIGN.md, (a) the per-property lists of rules that the hand-written text does not describe
(taken from the rule docstrings) and (b) the seeded-change table. Idempotent: works between HTML comment markers."""
import importlib
import json
import os
import re
import sys
import textwrap

VERIF = os.path.dirname(os.path.dirname(os.path.abspath(__file__)))
sys.path.insert(0, VERIF)
P = os.path.join(VERIF, "DESIGN.md")
s = open(P).read()
props = [f"C{n:02d}" for n in range(1, 21)]


def block(prop):
    m = importlib.import_module("sa.rules." + prop.lower())
    body_wo = re.sub(rf"<!-- RULES-ADDED {prop} -->.*?<!-- /RULES-ADDED -->", "", s, flags=re.S)
    out = []
    for rid, fn, floor in m.rules():
        if f"**{rid} " in body_wo or f"**{rid}." in body_wo and False:
            continue
        d = " ".join((fn.__doc__ or "").strip().split())
        d = re.sub(rf"^{re.escape(rid)}\s*", "", d)
        out.append("\n".join(textwrap.wrap(f"* **{rid}** (floor {floor}) {d}", 100, subsequent_indent="  ")))
    if not out:
        return ""
    return ("*Rules added while building and after the seeded rounds (text = the rule's own docstring; section 7 says which seeded "
            "change each one answers):*\n\n" + "\n".join(out) + "\n")


for i, prop in enumerate(props):
    b = f"<!-- RULES-ADDED {prop} -->\n{block(prop)}<!-- /RULES-ADDED -->"
    if f"<!-- RULES-ADDED {prop} -->" in s:
        s = re.sub(rf"<!-- RULES-ADDED {prop} -->.*?<!-- /RULES-ADDED -->", lambda _: b, s, flags=re.S)
    else:
        # before the property's "Not decided" paragraph, else before the next section header
        start = s.index(f"### {prop} ")
        nxt = re.search(r"\n(### C\d\d |---------)", s[start + 5:])
        end = start + 5 + nxt.start()
        nd = s.find("\nNot decided", start, end)
        at = nd if nd != -1 else end
        s = s[:at] + "\n" + b + "\n" + s[at:]

# ---- seeded table
res_p = os.path.join(VERIF, "seeded", "RESULTS.json")
if os.path.exists(res_p) and "<!-- SEED-TABLE -->" in s:
    res = json.load(open(res_p))
    rows = ["| change | round | what was changed (author's summary, shortened) | own check: rules that fire | other checks that fire |", "|---|---|---|---|---|"]
    n_own = n_other = n_miss = 0
    for sid in sorted(res):
        prop = sid.split("-")[0]
        meta_p = os.path.join(VERIF, "seeded", sid, "meta.json")
        meta = json.load(open(meta_p)) if os.path.exists(meta_p) else {}
        r = res[sid]
        own = sorted({x.split(" ")[0] for x in r.get(prop, {}).get("fired", [])})
        others = sorted(p for p in r if p != prop and isinstance(r[p], dict) and r[p].get("exit") == 1)
        if own:
            n_own += 1
        elif others:
            n_other += 1
        else:
            n_miss += 1
        summ = " ".join(meta.get("summary", "").split()).replace("|", "/")
        if len(summ) > 190:
            summ = summ[:187] + "..."
        rows.append(f"| {sid} | {meta.get('round', 1)} | {summ} | {', '.join(own) or '**missed**'} | {', '.join(others) or '-'} |")
    tab = (f"{len(res)} kept changes: {n_own} caught by the check of their own property, {n_other} only by another property's check, "
           f"{n_miss} by none (current rules, `tools/seed_eval.py`).\n\n" + "\n".join(rows) + "\n")
    s = re.sub(r"<!-- SEED-TABLE -->.*?<!-- /SEED-TABLE -->", lambda _: f"<!-- SEED-TABLE -->\n{tab}<!-- /SEED-TABLE -->", s, flags=re.S)
open(P, "w").write(s)
print("ok")
