#!/venv/bin/python
"""development aid: tools/benign_dbg.py <benign-id> <PROP> [func-qual ...] - applies the refactoring to a scratch copy, runs the
check verbosely, prints the normalised source of the given functions, keeps the copy when KEEP=1"""
import ast, os, shutil, subprocess, sys
V = os.path.dirname(os.path.dirname(os.path.abspath(__file__)))
sys.path.insert(0, V)
from sa import selftest as st
from sa.repo import Repo
bid, prop = sys.argv[1], sys.argv[2]
d = st._copy_tree("/repo")
try:
    r = subprocess.run(["git", "apply", "--unsafe-paths", os.path.join(V, "benign" if os.path.isdir(os.path.join(V, "benign", bid)) else "seeded", bid, "patch.diff")], cwd=d, capture_output=True, text=True)
    print("apply rc", r.returncode, r.stderr[:200])
    rc, out = st._run_check(prop, d)
    print("\n".join(l for l in out.splitlines() if not l.startswith("KNOWN-FINDING")))
    if len(sys.argv) > 3:
        repo = Repo(d)
        for q in sys.argv[3:]:
            try:
                print("-----", q); print(ast.unparse(repo.func(q).node))
            except Exception as e:
                print("  !", e)
    if os.environ.get("KEEP"):
        print("kept", d)
finally:
    if not os.environ.get("KEEP"):
        shutil.rmtree(d, ignore_errors=True)
