#!/venv/bin/python
"""Regenerates /verif/MANIFEST.json from the rule modules that exist under sa/rules/.
Per-property claim texts live in tools/claims.json."""
import importlib, json, os, sys
V = os.path.dirname(os.path.dirname(os.path.abspath(__file__)))
sys.path.insert(0, V)
claims = json.load(open(os.path.join(V, "tools", "claims.json")))
props = [json.loads(l)["id"] for l in open(os.path.join(V, "properties.jsonl"))]
checks, na = [], []
for p in props:
    c = claims.get(p, {})
    have = os.path.exists(os.path.join(V, "sa", "rules", p.lower() + ".py"))
    if have and not c.get("not_applicable"):
        # rules the hand-written claim text does not mention yet are appended from their docstrings
        mod = importlib.import_module("sa.rules." + p.lower())
        extra = []
        for rid, fn, floor in mod.rules():
            if f"({rid})" in c["text"] or f"{rid} " in c["text"]:
                continue
            d = " ".join((fn.__doc__ or "").strip().split())
            if d.startswith(rid):
                d = d[len(rid):].strip()
            d = d.split(" - ")[0]
            extra.append(f"({rid}) {d[:260].rstrip().rstrip('.')}")
        if extra:
            nd = c["text"].rfind(". ")
            c = dict(c)
            c["text"] = c["text"].rstrip() + " Further necessary conditions decided by rules added after the seeded rounds: " + "; ".join(extra) + "."
        checks.append({
            "property_id": p,
            "quick_cmd": f"./check {p} --tier quick",
            "thorough_cmd": f"./check {p} --tier thorough",
            "evidence_file": f"/verif/evidence/{p}.json",
            "replay_cmd_template": f"./check {p} --replay {{path}}",
            "engine": "sa",
            "level_claimed": {"category": "other", "text": c["text"], "design_ref": c.get("design_ref", f"DESIGN.md section 3, {p}")},
            "level_note": c["note"],
            "technique": c["technique"],
        })
    else:
        na.append({"property_id": p, "reason": c.get("not_applicable") or "check not implemented yet in this round (design in DESIGN.md section 3); nothing is claimed"})
m = {
    "version": 1,
    "setup_cmd": "true",
    "hooks": {"guard": "ESPRESSIF_ESP_IDF_KCONFIG_VERIF", "enable": "no hooks: the checks parse /repo's working tree with ast and never run it; the variable is reserved and unused",
              "baseline_off_cmd": "cd /repo && /venv/bin/python -m pytest -ra -q -p no:cacheprovider --timeout=900 --continue-on-collection-errors",
              "source_commits": [], "add_only": True},
    "engines": [{"name": "sa", "path": "/verif/sa", "serves_properties": [c["property_id"] for c in checks],
                 "kind_free_text": "repository-specific static analysis on Python's ast: access-path read sets, structured must/may dataflow (guards, dominance, pending obligations), name-based call graph, dispatch-table and regex-skeleton extraction, rewrite-rule soundness tables"}],
    "checks": checks,
    "not_applicable": na,
    "notes": "Every check exits 0/1/2 = held / VIOLATION / ANALYSIS-ERROR (fail closed). Known findings (genuine defects recorded, not repaired) are in /verif/known_findings.json; 'fix:' commits in /repo are listed there as fixed entries. thorough = quick at inlining depth 5 plus the checker self-test (mutant and benign-twin catalogue on scratch copies).",
}
json.dump(m, open(os.path.join(V, "MANIFEST.json"), "w"), indent=1)
print("checks", len(checks), "not_applicable", len(na))
