#!/venv/bin/python
import sys, importlib; sys.path.insert(0,'/verif')
from sa.repo import Repo
from sa.report import Ctx
p=sys.argv[1].upper(); root=sys.argv[2] if len(sys.argv)>2 else '/repo'
m=importlib.import_module(f'sa.rules.{p.lower()}')
ctx=Ctx(Repo(root),p,'quick')
for rid,fn,fl in m.rules():
    ctx._rule=rid
    try: fn(ctx)
    except Exception as e: print("ERR",rid,type(e).__name__,e)
for i in ctx.instances: print(i.rule,i.verdict,'|',i.construct,'|',i.where)
