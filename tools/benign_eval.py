#!/venv/bin/python
"""Applies each kept behaviour-preserving refactoring (/verif/benign/<id>/patch.diff) to a scratch copy of /repo and runs all
twenty quick checks on it: every check must stay silent (exit 0). usage: tools/benign_eval.py [ids...]"""
import json, os, re, shutil, subprocess, sys
from concurrent.futures import ThreadPoolExecutor
V = os.path.dirname(os.path.dirname(os.path.abspath(__file__)))
sys.path.insert(0, V)
from sa import selftest as st  # noqa: E402
PROPS = [f"C{n:02d}" for n in range(1, 21)]


def one(bid):
    d = st._copy_tree("/repo")
    try:
        r = subprocess.run(["git", "apply", "--unsafe-paths", os.path.join(V, "benign", bid, "patch.diff")], cwd=d, capture_output=True, text=True)
        if r.returncode:
            return bid, "patch does not apply", {}
        res = {}
        for p in PROPS:
            rc, out = st._run_check(p, d)
            if rc != 0:
                res[p] = (rc, [l.strip() for l in out.splitlines() if l.startswith("  R") or "ANALYSIS-ERROR" in l][:6])
        return bid, "ok", res
    finally:
        shutil.rmtree(d, ignore_errors=True)


ids = sys.argv[1:] or sorted(os.listdir(os.path.join(V, "benign")))
ids = [i for i in ids if os.path.exists(os.path.join(V, "benign", i, "patch.diff"))]
out = {}
with ThreadPoolExecutor(8) as ex:
    for bid, status, res in ex.map(one, ids):
        out[bid] = {"status": status, "alarms": {p: {"exit": rc, "lines": ls} for p, (rc, ls) in res.items()}}
        tag = "SILENT" if status == "ok" and not res else ("ALARM" if res else status)
        print(f"{bid:10s} {tag:8s} {sorted(res)}", flush=True)
        for p, (rc, ls) in sorted(res.items()):
            for l in ls:
                print(f"      {p} rc={rc}: {l[:200]}")
json.dump(out, open(os.path.join(V, "benign", "RESULTS.json"), "w"), indent=1)
