#!/venv/bin/python
"""Diagnostic benign twin: rename every local variable of every function (suffix _r) in a scratch copy and run all checks.
Prints, per property, exit code and fired rules. Not part of the registered checks."""
import ast, os, re, shutil, subprocess, sys
sys.path.insert(0, os.path.dirname(os.path.dirname(os.path.abspath(__file__))))
from sa import selftest as st

class Ren(ast.NodeTransformer):
    def __init__(self, names): self.names = names
    def visit_Name(self, n):
        if n.id in self.names: n.id = n.id + "_r"
        return n
    def visit_ExceptHandler(self, n):
        if n.name in self.names: n.name = n.name + "_r"
        self.generic_visit(n); return n

def locals_of(fn):
    params, stores, banned = set(), set(), set()
    for n in ast.walk(fn):
        if isinstance(n, (ast.FunctionDef, ast.AsyncFunctionDef, ast.Lambda)):
            a = n.args
            for x in a.posonlyargs + a.args + a.kwonlyargs: params.add(x.arg)
            if a.vararg: params.add(a.vararg.arg)
            if a.kwarg: params.add(a.kwarg.arg)
            if not isinstance(n, ast.Lambda) and n is not fn: banned.add(n.name)
        elif isinstance(n, ast.ClassDef): banned.add(n.name)
        elif isinstance(n, (ast.Global, ast.Nonlocal)): banned |= set(n.names)
        elif isinstance(n, ast.Name) and isinstance(n.ctx, ast.Store): stores.add(n.id)
        elif isinstance(n, ast.ExceptHandler) and n.name: stores.add(n.name)
        elif isinstance(n, (ast.Import, ast.ImportFrom)):
            for al in n.names: banned.add((al.asname or al.name).split(".")[0])
    return stores - params - banned

d = st._copy_tree("/repo")
try:
    for p in st._py_files(d):
        tree = ast.parse(open(p).read())
        def visit(body):
            for n in body:
                if isinstance(n, ast.ClassDef): visit(n.body)
                elif isinstance(n, (ast.FunctionDef, ast.AsyncFunctionDef)):
                    Ren(locals_of(n)).visit(n)
        visit(tree.body)
        open(p, "w").write(ast.unparse(tree) + "\n")
    import py_compile
    for p in st._py_files(d): py_compile.compile(p, doraise=True)
    props = sys.argv[1:] or [f"C{i:02d}" for i in range(1, 21)]
    for pr in props:
        rc, out = st._run_check(pr, d)
        fired = sorted(set(re.findall(r"^  (R\d\d\.\w+) (.*)$", out, re.M)))
        errs = [l[:170] for l in out.splitlines() if l.startswith("ANALYSIS-ERROR")]
        print(pr, "exit", rc, [f"{a} {b[:70]}" for a, b in fired][:8], errs[:3])
finally:
    shutil.rmtree(d, ignore_errors=True)
