#!/venv/bin/python
"""Run the repository's pinned suite and compare the set of passing tests with
/root/.vp/BASELINE.json (stable_pass). Exit 0 iff every stable test still passes.
Usage: tools/baseline_check.py [repo_root]"""
import json, os, subprocess, sys, tempfile
import xml.etree.ElementTree as ET
root = sys.argv[1] if len(sys.argv) > 1 else "/repo"
base = json.load(open("/root/.vp/BASELINE.json"))
fd, junit = tempfile.mkstemp(suffix=".xml"); os.close(fd)
subprocess.run(["/venv/bin/python", "-m", "pytest", "-ra", "-q", "-p", "no:cacheprovider", "--timeout=900",
                "--continue-on-collection-errors", f"--junitxml={junit}"], cwd=root,
               env=dict(os.environ, PYTHONPATH=root),
               stdout=subprocess.DEVNULL, stderr=subprocess.DEVNULL)
passed = set()
for tc in ET.parse(junit).getroot().iter("testcase"):
    if not any(c.tag in ("failure", "error", "skipped") for c in tc):
        passed.add(f"{tc.get('classname')}::{tc.get('name')}")
os.unlink(junit)
want = set(base["stable_pass"])
missing = sorted(want - passed)
print(f"stable_pass={len(want)} passed_now={len(passed)} missing={len(missing)}")
for m in missing[:40]:
    print("  MISSING", m)
sys.exit(1 if missing else 0)
