#!/venv/bin/python
"""Ad-hoc mutant test: tools/mut.py PROP file 'old text' 'new text'  -> runs ./check PROP on a scratch copy."""
import os, shutil, subprocess, sys, tempfile
prop, rel, old, new = sys.argv[1:5]
d = tempfile.mkdtemp(prefix="mut-", dir="/tmp")
try:
    for pkg in ("esp_kconfiglib","kconfgen","kconfserver","esp_menuconfig","kconfcheck","esp_idf_kconfig","kconfiglib","menuconfig","docs"):
        if os.path.isdir(f"/repo/{pkg}"): shutil.copytree(f"/repo/{pkg}", f"{d}/{pkg}", ignore=shutil.ignore_patterns("__pycache__"))
    s = open(f"{d}/{rel}").read()
    assert s.count(old) >= 1, "old text not found"
    open(f"{d}/{rel}", "w").write(s.replace(old, new, 1))
    import py_compile; py_compile.compile(f"{d}/{rel}", doraise=True)
    r = subprocess.run(["/verif/check", prop, "--repo", d, "--no-evidence"], capture_output=True, text=True)
    print("\n".join(l for l in r.stdout.splitlines() if not l.startswith("KNOWN-FINDING")))
    print("exit", r.returncode)
finally:
    shutil.rmtree(d, ignore_errors=True)
