#!/venv/bin/python
"""Run the implemented checks against every kept seeded change (scratch worktree per seed) and record
which checks fire. usage: tools/seed_eval.py [seed-dir-names...]   -> seeded/RESULTS.json + table on stdout"""
import json, os, re, shutil, subprocess, sys, tempfile
from concurrent.futures import ThreadPoolExecutor
V = os.path.dirname(os.path.dirname(os.path.abspath(__file__)))
props = sorted(f[:-3].upper() for f in os.listdir(f"{V}/sa/rules") if re.fullmatch(r"c\d\d\.py", f))
seeds = sys.argv[1:] or sorted(d for d in os.listdir(f"{V}/seeded") if os.path.isdir(f"{V}/seeded/{d}"))

def run(seed):
    wt = tempfile.mkdtemp(prefix=f"seedeval-{seed}-", dir="/tmp"); os.rmdir(wt)
    try:
        subprocess.run(["git", "-C", "/repo", "worktree", "add", "--detach", wt, "HEAD", "-q"], check=True, capture_output=True)
        r = subprocess.run(["git", "apply", f"{V}/seeded/{seed}/patch.diff"], cwd=wt, capture_output=True, text=True)
        if r.returncode:
            return seed, {"error": "patch does not apply: " + r.stderr[-200:]}
        out = {}
        for p in props:
            r = subprocess.run([f"{V}/check", p, "--repo", wt, "--no-evidence", "--tier", "quick"], capture_output=True, text=True, cwd=V)
            rules = sorted(set(re.findall(r"^  (R\d\d\.\d+\w*) (.*)$", r.stdout, re.M)))
            out[p] = {"exit": r.returncode, "fired": [f"{a} {b}" for a, b in rules][:6],
                      "errors": [l for l in r.stdout.splitlines() if l.startswith("ANALYSIS-ERROR")][:3]}
        return seed, out
    finally:
        subprocess.run(["git", "-C", "/repo", "worktree", "remove", "--force", wt], capture_output=True)
        shutil.rmtree(wt, ignore_errors=True)

res = {}
with ThreadPoolExecutor(8) as ex:
    for seed, out in ex.map(run, seeds):
        res[seed] = out
        if "error" in out:
            print(seed, out["error"]); continue
        own = seed.split("-")[0]
        fired = [p for p, o in out.items() if o["exit"] == 1]
        errs = [p for p, o in out.items() if o["exit"] == 2]
        tag = "CAUGHT-BY-OWN" if own in fired else ("caught-by-other" if fired else "MISSED")
        print(f"{seed:8s} {tag:16s} fired={fired} analysis-errors={errs}")
        for p in fired:
            for f in out[p]["fired"][:2]:
                print(f"           {p}: {f}")
old = {}
rp = f"{V}/seeded/RESULTS.json"
if os.path.exists(rp):
    old = json.load(open(rp))
old.update(res)
json.dump(old, open(rp, "w"), indent=1, sort_keys=True)
