#!/venv/bin/python
"""Diagnostic benign twins (development aid, not a registered check): applies one behaviour-preserving whole-tree
transformation to a scratch copy and runs all twenty quick checks on it. Usage: twin_lab.py <twin> [PROP ...]
Twins: reorder_defs, logging, annotate, explain_var, else_flatten, else_unflatten, docstrings"""
import ast
import os
import shutil
import subprocess
import sys
from concurrent.futures import ThreadPoolExecutor

sys.path.insert(0, os.path.dirname(os.path.dirname(os.path.abspath(__file__))))
from sa import selftest as st  # noqa: E402


from sa.twins import reorder_defs, logging_twin, annotate, explain_var, else_flatten, else_unflatten  # noqa: E402


TW = {"reorder_defs": reorder_defs, "logging": logging_twin, "annotate": annotate, "explain_var": explain_var,
      "else_flatten": else_flatten, "else_unflatten": else_unflatten}


def main():
    name = sys.argv[1]
    props = sys.argv[2:] or [f"C{n:02d}" for n in range(1, 21)]
    d = st._copy_tree("/repo")
    try:
        TW[name](d)
        # the twin must still compile
        for p in st._py_files(d):
            compile(open(p, encoding="utf-8").read(), p, "exec")
        if os.environ.get("KEEP"):
            print("kept at", d)

        def one(p):
            rc, out = st._run_check(p, d)
            lines = [l for l in out.splitlines() if l.startswith("  R") or "ANALYSIS-ERROR" in l]
            return p, rc, lines
        with ThreadPoolExecutor(16) as ex:
            for p, rc, lines in ex.map(one, props):
                print(p, "rc=", rc)
                for l in lines[:8]:
                    print("   ", l[:230])
    finally:
        if not os.environ.get("KEEP"):
            shutil.rmtree(d, ignore_errors=True)


if __name__ == "__main__":
    main()
