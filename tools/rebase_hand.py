"""helper for re-creating a kept patch by hand on the current /repo HEAD: `git -C /repo worktree add --detach /tmp/fx/rb HEAD`, then
edit(path, old, new) ... finish(kind, id) (py_compile, demo must fail with / pass without the patch, baseline must stay green, patch.diff and
meta.json are rewritten). See DESIGN.md, rounds 6 and 7."""
import subprocess, sys, os, json, re
WT='/tmp/fx/rb'
def sh(*a, **k): return subprocess.run(a, cwd=WT, capture_output=True, text=True, **k)
def reset():
    sh('git','checkout','-q','--','.'); sh('git','clean','-fdq')
def apply_partial(patch):
    r=sh('git','apply','--reject',patch)
    rej=[l for l in (r.stdout+r.stderr).splitlines() if 'Rejected' in l or 'rejected' in l.lower()]
    for root,_,fs in os.walk(WT):
        for f in fs:
            if f.endswith('.rej'): os.remove(os.path.join(root,f))
    return rej
def edit(path, old, new, count=1):
    p=os.path.join(WT,path); s=open(p).read()
    assert s.count(old)>=1, (path, old[:60])
    open(p,'w').write(s.replace(old,new,count))
def finish(kind, sid, demo=True):
    d=f'/verif/{kind}/{sid}'
    diff=sh('git','diff','HEAD').stdout
    r=subprocess.run(['/venv/bin/python','-m','py_compile']+[os.path.join(WT,f) for f in set(re.findall(r'^\+\+\+ b/(.*\.py)$',diff,re.M))],capture_output=True,text=True)
    assert r.returncode==0, r.stderr
    if kind=='seeded':
        rc=subprocess.run(['/venv/bin/python',f'{d}/demo.py',WT],cwd=WT,env=dict(os.environ,PYTHONPATH=WT),capture_output=True,text=True).returncode
        rc0=subprocess.run(['/venv/bin/python',f'{d}/demo.py','/repo'],cwd='/repo',env=dict(os.environ,PYTHONPATH='/repo'),capture_output=True,text=True).returncode
        print(sid,'demo patched rc',rc,'HEAD rc',rc0)
        assert rc!=0 and rc0==0
    b=subprocess.run(['/venv/bin/python','/verif/tools/baseline_check.py',WT],capture_output=True,text=True)
    print(sid, b.stdout.strip().splitlines()[-1])
    assert 'missing=0' in b.stdout
    open(f'{d}/patch.diff','w').write(diff)
    m=json.load(open(f'{d}/meta.json')); m['rebased']='re-created by hand on /repo 01ffa21 (the code it edits was changed by a later fix: commit)'; json.dump(m,open(f'{d}/meta.json','w'),indent=1)
    reset()
